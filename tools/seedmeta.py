#!/usr/bin/env python3
# usage: seedmeta.py <seed id> <property> <yes|no> <detected_by text> [ran text]
import json, sys, os
sid, prop, det, by = sys.argv[1:5]
ran = sys.argv[5] if len(sys.argv) > 5 else f"/verif/tools/seedcheck.sh /verif/seeded/{sid} go/mcap {prop}  (scratch worktree: demo passes without the patch, fails with it; 195 baseline tests still pass with it)"
d = f"/verif/seeded/{sid}"
notes = open(os.path.join(d, "notes.md")).read() if os.path.exists(os.path.join(d, "notes.md")) else ""
meta = {"property": prop, "what_changed_and_needs_to_manifest": notes.strip()[:3000],
        "confirmed_by_me": {"ran": ran, "result": "confirmed"}, "detected": det, "detected_by": by,
        "author": "independent sub-agent given only the property text and its own scratch worktree"}
json.dump(meta, open(os.path.join(d, "meta.json"), "w"), indent=1)
print("wrote", d + "/meta.json")
