#!/bin/bash
# usage: mutants.sh <prop> [dir]  — runs every patch of selftest/mutants/<prop>/ against the property's quick check
# (scratch worktree per mutant, removed afterwards); a mutant that still verifies is a hole in the contracts.
prop=$1; dir=${2:-/verif/selftest/mutants/$prop}
one() { p=$1; prop=$2
  out=$(GOVC_NORETRY=1 /verif/tools/mutant.sh "$p" "$prop" 2>&1); rc=$?
  if echo "$out" | grep -q '^VIOLATION'; then echo "KILLED   $(basename $p .diff): $(echo "$out" | grep '^VIOLATION' | head -2 | sed 's/.*replay=[^ ]*\///' | tr '\n' ' ' | cut -c1-200)";
  elif echo "$out" | grep -q 'DOES NOT APPLY'; then echo "STALE    $(basename $p .diff)";
  else echo "SURVIVED $(basename $p .diff): $(echo "$out" | grep -E '^(UNDECIDED|TOOL)' | head -2 | tr '\n' ' ' | cut -c1-200)"; fi; }
export -f one
ls $dir/*.diff | xargs -P 3 -I{} bash -c 'one {} '$prop
