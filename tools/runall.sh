#!/bin/bash
# runs every registered quick check on the unchanged tree and prints one line each
cd /verif
for p in $(python3 -c "import json;print(' '.join(c['property_id'] for c in json.load(open('MANIFEST.json'))['checks']))"); do
  s=$(date +%s); out=$(./bin/govc check -prop $p -tier ${1:-quick} 2>&1); rc=$?
  echo "$p exit=$rc $(( $(date +%s)-s ))s: $(echo "$out" | grep -E '^(VIOLATION|TOOL|UNDECIDED)' | head -3 | cut -c1-200 | tr '\n' ' ') $(echo "$out" | grep '^property' | cut -c1-200)"
done
