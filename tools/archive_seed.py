#!/usr/bin/env python3
"""archive_seed.py <seed dir> <property> <pkg dir> <caught: yes/no/partial> <which check/obligation caught it, or why missed>"""
import json,sys,os,shutil
src,prop,pkg,caught,how=sys.argv[1:6]
name=os.path.basename(src.rstrip('/'))
dst=f'/verif/seeded/{name}'
os.makedirs(dst,exist_ok=True)
shutil.copy(f'{src}/patch.diff',f'{dst}/patch.diff')
shutil.copy(f'{src}/demo_test.go.txt',f'{dst}/demo_test.go.txt')
meta=json.load(open(f'{src}/meta.json'))
out={"property":prop,"what_changed":meta.get('what_changed'),"needs_to_manifest":meta.get('needs_to_manifest'),
 "confirmed_by_me":{"ran":f"/verif/tools/seedcheck.sh {src} {pkg} {prop}  (scratch worktree: demo passes without the patch, fails with it; 195 baseline tests still pass with it)","result":"confirmed"},
 "detected":caught,"detected_by":how,"author":"independent sub-agent given only the property text"}
json.dump(out,open(f'{dst}/meta.json','w'),indent=1)
print('archived',dst)
