#!/bin/bash
# usage: seedin.sh <seed id> <pkgdir> <prop> [props...]  — archive a sub-agent's output from /tmp/seedout/<id>, drop its worktree, confirm and check
set -u
id=$1; pkg=$2; shift 2
mkdir -p /verif/seeded/$id
cp /tmp/seedout/$id/patch.diff /tmp/seedout/$id/demo_test.go.txt /tmp/seedout/$id/notes.md /verif/seeded/$id/ 2>/dev/null
git -C /repo worktree remove --force /tmp/seedwt/$id >/dev/null 2>&1; git -C /repo worktree prune
/verif/tools/seedcheck.sh /verif/seeded/$id $pkg "$@" 2>&1 | grep -v conda
