#!/usr/bin/env python3
"""Run the repository's Go tests (guard off) and check that every test of BASELINE.json's stable_pass list passes."""
import json, subprocess, os, sys
base = json.load(open('/root/.vp/BASELINE.json'))
want = set(base['stable_pass'])
env = dict(os.environ, GOPROXY='off', GOSUMDB='off', GOTOOLCHAIN='local', GOFLAGS='')
mods = ['go/mcap', 'go/ros', 'go/conformance/test-read-conformance', 'go/conformance/test-write-conformance']
status = {}
for m in mods:
    d = os.path.join(os.environ.get('REPO', '/repo'), m)
    if not os.path.isdir(d):
        continue
    p = subprocess.run(['go', 'test', '-json', '-vet=off', '-count=1', '-timeout', '25m', './...'], cwd=d, env=env, capture_output=True, text=True)
    for line in p.stdout.splitlines():
        try:
            ev = json.loads(line)
        except Exception:
            continue
        if ev.get('Test') and ev.get('Action') in ('pass', 'fail', 'skip'):
            status[ev['Package'] + '::' + ev['Test']] = ev['Action']
bad = [t for t in sorted(want) if status.get(t) != 'pass']
print(f"stable_pass tests: {len(want)}, passing now: {len(want) - len(bad)}")
for t in bad[:20]:
    print("NOT PASSING:", t, status.get(t))
sys.exit(1 if bad else 0)
