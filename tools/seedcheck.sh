#!/bin/bash
# usage: seedcheck.sh <seed dir with patch.diff, demo_test.go.txt> <pkgdir relative, e.g. go/mcap> <prop> [more props...]
# Confirms a seeded change in a scratch worktree: builds, baseline tests unaffected, demo fails with / passes without;
# then runs the named property checks against it.
set -u
seed=$(readlink -f "$1"); pkg=$2; shift 2
export GOPROXY=off GOSUMDB=off GOTOOLCHAIN=local GOFLAGS=
wt=$(mktemp -d /tmp/govc-seed.XXXXXX)
git -C /repo worktree add --detach -q "$wt" HEAD || exit 3
trap 'git -C /repo worktree remove --force "$wt" >/dev/null 2>&1; rm -rf "$wt"' EXIT
if ! git -C /repo diff --quiet HEAD; then git -C /repo diff HEAD | git -C "$wt" apply; fi
demo=$(grep -o 'func Test[A-Za-z0-9_]*' "$seed/demo_test.go.txt" | head -1 | sed 's/func //')
cp "$seed/demo_test.go.txt" "$wt/$pkg/zz_seed_test.go"
r0=$(cd "$wt/$pkg" && go test -vet=off -count=1 -timeout 120s -run "^${demo}\$" . 2>&1 | tail -1)
echo "demo without patch: $r0"
if ! git -C "$wt" apply "$seed/patch.diff"; then echo "PATCH DOES NOT APPLY"; exit 3; fi
(cd "$wt/$pkg" && go build ./... ) || { echo "DOES NOT BUILD"; exit 3; }
r1=$(cd "$wt/$pkg" && go test -vet=off -count=1 -timeout 120s -run "^${demo}\$" . 2>&1 | grep -E '^(--- FAIL|FAIL|ok|panic)' | head -2 | tr '\n' ' ')
echo "demo with patch:    $r1"
rm -f "$wt/$pkg/zz_seed_test.go"
echo -n "baseline with patch: "; REPO="$wt" python3 /verif/tools/baseline.py | head -3 | tr '\n' ' '; echo
for prop in "$@"; do
  echo "--- check $prop"
  GOVC_REPO="$wt" GOVC_NOEVIDENCE=1 /verif/bin/govc check -prop "$prop" -tier quick 2>&1 | grep -v conda | grep -E '^(VIOLATION|KNOWN|UNDECIDED|TOOL|property|DETACHED)' | sed "s#$wt#/repo#g" | cut -c1-260
done
