#!/bin/bash
# usage: neutral.sh [patch...]  — must-pass corpus: behaviour-preserving edits of /repo (selftest/neutral/*.diff, "<name>.props" lists
# the properties to run; default: all whose check reads the touched file). A VIOLATION line or exit 1 on one of these is a false alarm.
cd /verif
props_for() { case "$1" in
  *lexer*) echo "C10 C11 C01 C09 C15 C07";;
  *indexed*) echo "C10 C03 C04 C02 C12 C20 C11";;
  *writer*) echo "C14 C05 C08 C06 C13";;
  *parse*) echo "C10 C11 C01";;
  *) echo "C10";; esac; }
for p in ${@:-selftest/neutral/*.diff}; do
  for prop in $(props_for $(basename $p)); do
    out=$(tools/mutant.sh $p $prop 2>&1); rc=$?
    v=$(echo "$out" | grep -c '^VIOLATION'); t=$(echo "$out" | grep -c '^TOOL')
    if [ $v -gt 0 ]; then echo "FALSE-ALARM $(basename $p .diff) $prop: $(echo "$out" | grep '^VIOLATION' | head -2 | sed 's/.*replay=[^ ]*\///' | tr '\n' ' ' | cut -c1-220)";
    elif [ $t -gt 0 ]; then echo "INCONCLUSIVE $(basename $p .diff) $prop rc=$rc: $(echo "$out" | grep '^TOOL' | head -1 | cut -c1-160)";
    else echo "quiet       $(basename $p .diff) $prop rc=$rc"; fi
  done
done
