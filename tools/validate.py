#!/usr/bin/env python3
# validates MANIFEST.json and evidence/*.json against the given schemas (tooling venv has jsonschema)
import json, sys, glob, jsonschema
m = json.load(open('/verif/MANIFEST.json'))
jsonschema.validate(m, json.load(open('/root/.vp/MANIFEST.schema.json')))
es = json.load(open('/root/.vp/EVIDENCE.schema.json'))
for f in sorted(glob.glob('/verif/evidence/*.json')):
    jsonschema.validate(json.load(open(f)), es)
props = {json.loads(l)['id'] for l in open('/verif/properties.jsonl')}
claimed = {c['property_id'] for c in m['checks']}
na = {n['property_id'] for n in m['not_applicable']}
assert claimed | na == props and not (claimed & na), (props - claimed - na, claimed & na)
print('manifest + %d evidence files valid; claimed %d, not applicable %d' % (len(glob.glob('/verif/evidence/*.json')), len(claimed), len(na)))
