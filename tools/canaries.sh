#!/bin/bash
# usage: canaries.sh — reverse-applies every recorded fix (selftest/canaries/<commit>-*.diff) to a scratch worktree of /repo
# and runs the check of the property the fix is recorded for; the defect must be reported again (a fixed entry suppresses nothing).
cd /verif
python3 - <<'P' > /tmp/canary_list.txt
import json,re
d=json.load(open('/verif/known_findings.json'))
for f in d['fixed']:
    m=re.match(r'fixed: property=(C\d+) ([0-9a-f]+) ',f)
    if m: print(m.group(1), m.group(2))
P
while read prop h; do
  f=$(ls /verif/selftest/canaries/$h-*.diff 2>/dev/null | head -1)
  [ -z "$f" ] && { echo "NOFILE   $prop $h"; continue; }
  wt=$(mktemp -d /tmp/govc-can.XXXXXX); git -C /repo worktree add --detach -q "$wt" HEAD || continue
  if ! git -C "$wt" apply -R "$f" 2>/dev/null; then echo "STALE    $prop $h (reverse patch does not apply any more)"; git -C /repo worktree remove --force "$wt"; continue; fi
  out=$(GOVC_REPO="$wt" GOVC_NOEVIDENCE=1 ./bin/govc check -prop $prop -tier quick 2>&1)
  if echo "$out" | grep -q '^VIOLATION'; then echo "REPORTED $prop $h: $(echo "$out" | grep '^VIOLATION' | head -1 | sed 's/.*replay=[^ ]*\///' | cut -c1-150)"; else echo "SILENT   $prop $h"; fi
  git -C /repo worktree remove --force "$wt" >/dev/null 2>&1; rm -rf "$wt"
done < /tmp/canary_list.txt
