#!/bin/bash
# usage: mutant.sh <patch.diff> <property> [tier]
# Applies a patch to a scratch worktree of /repo (outside /repo and /verif), runs the property's check against it,
# removes the worktree. Prints the check's verdict lines. Exit status: that of the check.
set -u
patch=$(readlink -f "$1"); prop=$2; tier=${3:-quick}
wt=$(mktemp -d /tmp/govc-mut.XXXXXX)
git -C /repo worktree add --detach -q "$wt" HEAD 2>/dev/null || { echo "worktree failed"; exit 3; }
trap 'git -C /repo worktree remove --force "$wt" >/dev/null 2>&1; rm -rf "$wt"' EXIT
# carry over uncommitted changes of /repo's working tree (checks always run against the working tree)
if ! git -C /repo diff --quiet HEAD; then git -C /repo diff HEAD | git -C "$wt" apply; fi
if ! git -C "$wt" apply "$patch"; then echo "PATCH DOES NOT APPLY: $patch"; exit 3; fi
for d in go/mcap go/ros; do (cd "$wt/$d" && GOFLAGS= GOPROXY=off GOSUMDB=off GOTOOLCHAIN=local go build ./... >/dev/null 2>&1) || { echo "TOOL: PATCH DOES NOT BUILD: $patch"; exit 3; }; done
GOVC_REPO="$wt" GOVC_NOEVIDENCE=1 /verif/bin/govc check -prop "$prop" -tier "$tier" 2>&1 | grep -v conda | grep -E '^(VIOLATION|KNOWN|UNDECIDED|TOOL|property|DETACHED)' | sed "s#$wt#/repo#g"
exit ${PIPESTATUS[0]}
