package main

import (
	"fmt"
	"strings"
)

// cmdAxioms proves, in QF_BV, the two facts the uninterpreted little-endian functions rely on (DESIGN A.5, M1):
// assembling the bytes of x gives x back, and byte k of an assembled word is the k-th byte.
func cmdAxioms() int {
	bad := 0
	for _, k := range []int{2, 4, 8} {
		bits := k * 8
		var ex []string
		for i := k - 1; i >= 0; i-- {
			ex = append(ex, fmt.Sprintf("((_ extract %d %d) x)", i*8+7, i*8))
		}
		vc := fmt.Sprintf("(set-logic QF_BV)\n(declare-const x (_ BitVec %d))\n(assert (not (= (concat %s) x)))\n(check-sat)\n", bits, strings.Join(ex, " "))
		r, _, _ := runSolver(solvers[0], vc, 20)
		fmt.Printf("axiom le%d(byteof(x,0..%d)) = x : %s\n", bits, k-1, r)
		if r != "unsat" {
			bad++
		}
		var decl, cat []string
		for i := 0; i < k; i++ {
			decl = append(decl, fmt.Sprintf("(declare-const b%d (_ BitVec 8))", i))
		}
		for i := k - 1; i >= 0; i-- {
			cat = append(cat, fmt.Sprintf("b%d", i))
		}
		var conj []string
		for i := 0; i < k; i++ {
			conj = append(conj, fmt.Sprintf("(= ((_ extract %d %d) (concat %s)) b%d)", i*8+7, i*8, strings.Join(cat, " "), i))
		}
		vc = fmt.Sprintf("(set-logic QF_BV)\n%s\n(assert (not (and %s)))\n(check-sat)\n", strings.Join(decl, "\n"), strings.Join(conj, " "))
		r, _, _ = runSolver(solvers[0], vc, 20)
		fmt.Printf("axiom byteof(le%d(b0..b%d),k) = bk : %s\n", bits, k-1, r)
		if r != "unsat" {
			bad++
		}
	}
	return bad
}
