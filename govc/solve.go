// govc: per-obligation slicing, SMT-LIB emission and the solver portfolio.
package main

import (
	"crypto/sha256"
	"encoding/hex"
	"hash/fnv"
	"bytes"
	"context"
	"fmt"
	"os"
	"sort"
	"os/exec"
	"path/filepath"
	"regexp"
	"strings"
	"sync"
	"time"
)

func syms(s string) []string {
	var out []string
	for {
		i := strings.IndexByte(s, '|')
		if i < 0 {
			break
		}
		j := strings.IndexByte(s[i+1:], '|')
		if j < 0 {
			break
		}
		out = append(out, s[i:i+j+2])
		s = s[i+j+2:]
	}
	return out
}

const pow48 = "281474976710656"

func prelude(body string) string {
	var b strings.Builder
	b.WriteString("(declare-sort Str 0)\n(declare-sort Flt 0)\n(declare-fun slen (Str) Int)\n(declare-fun sat (Str Int) Int)\n(declare-const emptystr Str)\n(declare-const fzero Flt)\n")
	b.WriteString("(declare-const pre Int)\n(assert (>= pre 0))\n")
	b.WriteString("(declare-fun isEOF (Int) Bool)\n(declare-fun isUEOF (Int) Bool)\n(declare-fun isCRC (Int) Bool)\n(assert (and (not (isEOF 0)) (not (isUEOF 0)) (not (isCRC 0))))\n")
	b.WriteString("(declare-fun mkiface (Int Int) Int)\n(declare-fun dyntag (Int) Int)\n(declare-fun payload (Int) Int)\n")
	b.WriteString("(declare-fun sub (Int Int) Int)\n(declare-fun subp (Int) Int)\n(declare-fun subi (Int) Int)\n")
	b.WriteString("(declare-fun stridx (Str Str) Int)\n(declare-fun crcrange (Int Int Int) Int)\n(declare-fun strle (Str Str) Bool)\n")
	b.WriteString("(declare-fun byteof (Int Int) Int)\n(declare-const specerr! Int)\n(declare-fun slid (Int Int Int) Int)\n(declare-fun crcsum (Int Int) Int)\n(declare-fun rdbyte (Int Int Int) Int)\n(declare-fun crcarr ((Array Int Int) Int Int) Int)\n")
	if strings.Contains(body, "(rdbyte ") {
		b.WriteString("(assert (forall ((r Int) (g Int) (i Int)) (! (and (<= 0 (rdbyte r g i)) (<= (rdbyte r g i) 255)) :pattern ((rdbyte r g i)))))\n")
	}
	if strings.Contains(body, "(crcsum ") {
		b.WriteString("(assert (forall ((h Int) (n Int)) (! (and (<= 0 (crcsum h n)) (<= (crcsum h n) 4294967295)) :pattern ((crcsum h n)))))\n")
	}
	// assembling a little-endian word from its bytes is linear, so it is defined, not axiomatised
	b.WriteString("(define-fun le16 ((b0 Int) (b1 Int)) Int (+ b0 (* 256 b1)))\n")
	b.WriteString("(define-fun le32 ((b0 Int) (b1 Int) (b2 Int) (b3 Int)) Int (+ b0 (* 256 b1) (* 65536 b2) (* 16777216 b3)))\n")
	b.WriteString("(define-fun le64 ((b0 Int) (b1 Int) (b2 Int) (b3 Int) (b4 Int) (b5 Int) (b6 Int) (b7 Int)) Int (+ b0 (* 256 b1) (* 65536 b2) (* 16777216 b3) (* 4294967296 b4) (* 1099511627776 b5) (* 281474976710656 b6) (* 72057594037927936 b7)))\n")
	if strings.Contains(body, "slen") || strings.Contains(body, "(sat ") || strings.Contains(body, "emptystr") {
		b.WriteString("(assert (= (slen emptystr) 0))\n")
		b.WriteString("(assert (forall ((s Str)) (! (and (>= (slen s) 0) (<= (slen s) " + pow48 + ")) :pattern ((slen s)))))\n")
		b.WriteString("(assert (forall ((s Str)) (! (=> (= (slen s) 0) (= s emptystr)) :pattern ((slen s)))))\n")
		b.WriteString("(assert (forall ((s Str) (i Int)) (! (and (<= 0 (sat s i)) (<= (sat s i) 255)) :pattern ((sat s i)))))\n")
	}
	return b.String()
}

// sliceVC builds the SMT-LIB text for one obligation: the backward slice of definitions it needs plus every
// other fact that shares a symbol with that slice (dropping facts is sound).
func (e *Engine) sliceVC(o *Oblig, full bool, getValues []string) string {
	if e.defOf == nil {
		e.defOf = map[string][]int{}
		e.mention = map[string][]int{}
		for i, f := range e.facts {
			if f.Def != "" {
				e.defOf[f.Def] = append(e.defOf[f.Def], i)
				continue
			}
			for _, x := range syms(f.Term) {
				e.mention[x] = append(e.mention[x], i)
			}
		}
	}
	inc := map[int]bool{}
	set := map[string]bool{}
	var close func(work []string)
	close = func(work []string) {
		for len(work) > 0 {
			x := work[len(work)-1]
			work = work[:len(work)-1]
			if set[x] {
				continue
			}
			set[x] = true
			for _, fi := range e.defOf[x] {
				if fi < o.nf && !inc[fi] {
					inc[fi] = true
					work = append(work, syms(e.facts[fi].Term)...)
				}
			}
		}
	}
	if full {
		for i := range e.facts {
			if i < o.nf {
				inc[i] = true
			}
		}
		for k := range e.decls {
			set[k] = true
		}
	} else {
		close(syms(o.PC + " " + o.Cond))
		for round := 0; round < 2; round++ {
			var more []string
			var cur []string
			for x := range set {
				cur = append(cur, x)
			}
			for _, x := range cur {
				for _, fi := range e.mention[x] {
					if fi < o.nf && !inc[fi] {
						inc[fi] = true
						more = append(more, syms(e.facts[fi].Term)...)
					}
				}
			}
			close(more)
		}
	}
	var body bytes.Buffer
	for fi := range e.facts {
		if inc[fi] {
			body.WriteString("(assert " + e.facts[fi].Term + ")\n")
		}
	}
	fmt.Fprintf(&body, "(assert %s)\n(assert (not %s))\n", o.PC, o.Cond)
	bs := body.String()
	var b bytes.Buffer
	b.WriteString("; obligation " + o.name + "\n; " + o.Pos.String() + "\n")
	b.WriteString(prelude(bs))
	for _, d := range e.extraDecls {
		// (declare-fun name ...): include when the name occurs
		nm := strings.Fields(d)[1]
		if strings.Contains(bs, "("+nm+" ") {
			b.WriteString(d + "\n")
		}
	}
	declared := map[string]bool{}
	used := map[string]bool{}
	for _, x := range syms(bs) {
		used[x] = true
	}
	for _, x := range e.declOrder {
		if used[x] && !declared[x] {
			declared[x] = true
			fmt.Fprintf(&b, "(declare-const %s %s)\n", x, e.decls[x])
		}
	}
	for x := range used {
		if !declared[x] {
			if _, ok := e.decls[x]; !ok && !strings.Contains(x, "?") {
				fmt.Fprintf(&b, "; undeclared %s\n", x)
			}
		}
	}
	// every reference stored in the heap at function entry refers to a pre-existing object
	var usedSorted []string
	for x := range used {
		usedSorted = append(usedSorted, x)
	}
	sort.Strings(usedSorted)
	for _, x := range usedSorted {
		if !strings.HasPrefix(x, "|H0.") {
			continue
		}
		name := strings.TrimSuffix(strings.TrimPrefix(x, "|H0."), "|")
		if !e.refComp[name] {
			continue
		}
		if strings.HasPrefix(e.comps[name], "(Array Int (Array Int") {
			fmt.Fprintf(&b, "(assert (forall ((r Int) (i Int)) (! (<= (select (select %s r) i) pre) :pattern ((select (select %s r) i)))))\n", x, x)
		} else {
			fmt.Fprintf(&b, "(assert (forall ((r Int)) (! (<= (select %s r) pre) :pattern ((select %s r)))))\n", x, x)
		}
	}
	b.WriteString(bs)
	b.WriteString("(check-sat)\n")
	if len(getValues) > 0 {
		var gv []string
		for _, t := range getValues {
			ok := true
			for _, x := range syms(t) {
				if !declared[x] {
					ok = false
				}
			}
			if ok {
				gv = append(gv, t)
			}
		}
		if len(gv) > 0 {
			b.WriteString("(get-value (" + strings.Join(gv, " ") + "))\n")
		}
	}
	return b.String()
}

type solverSpec struct {
	name string
	args func(timeout int) []string
}

var solvers = []solverSpec{
	{"z3-new", func(t int) []string { return []string{"z3-new", fmt.Sprintf("-T:%d", t), "-in"} }},
	{"cvc5", func(t int) []string {
		return []string{"cvc5", "--lang=smt2", fmt.Sprintf("--tlimit=%d", t*1000), "--produce-models"}
	}},
	{"z3", func(t int) []string { return []string{"z3", fmt.Sprintf("-T:%d", t), "-in"} }},
}

var firstWord = regexp.MustCompile(`^\s*(\w+)`)

func runSolver(sp solverSpec, vc string, timeout int) (string, string, float64) {
	args := sp.args(timeout)
	if sp.name == "cvc5" {
		vc = "(set-logic ALL)\n" + vc
	}
	ctx, cancel := context.WithTimeout(context.Background(), time.Duration(timeout+5)*time.Second)
	defer cancel()
	cmd := exec.CommandContext(ctx, args[0], args[1:]...)
	cmd.Stdin = strings.NewReader(vc)
	t0 := time.Now()
	out, _ := cmd.CombinedOutput()
	dt := time.Since(t0).Seconds()
	s := string(out)
	res := "error"
	for _, ln := range strings.Split(s, "\n") {
		ln = strings.TrimSpace(ln)
		switch ln {
		case "sat", "unsat", "unknown", "timeout":
			res = ln
		}
		if res != "error" {
			break
		}
	}
	if res == "error" && (strings.Contains(s, "timeout") || ctx.Err() != nil) {
		res = "timeout"
	}
	return res, s, dt
}

// solveOb discharges one obligation with the portfolio. thorough: all solvers must not disagree.
// knownHashes: obligation name -> hash of the condition discharged when the ledger was written (set by cmdCheck).
var knownHashes map[string]string

// vcHash identifies a verification condition up to comments: the ledger keeps it for every discharged obligation, and an
// obligation whose solvers all time out is still discharged when its condition is literally the one proved before.
func vcHash(vc string) string {
	h := sha256.New()
	var lines []string
	for _, l := range strings.Split(vc, "\n") {
		if strings.HasPrefix(l, ";") || l == "" {
			continue
		}
		lines = append(lines, l)
	}
	sort.Strings(lines) // a condition is a set of declarations and assertions: their order carries no meaning
	for _, l := range lines {
		h.Write([]byte(l))
		h.Write([]byte{'\n'})
	}
	return hex.EncodeToString(h.Sum(nil))[:24]
}

func (e *Engine) solveOb(o *Oblig, timeout int, thorough bool, dumpDir string) {
	vc := e.sliceVC(o, false, nil)
	o.VCHash = vcHash(vc)
	if dumpDir != "" {
		os.MkdirAll(dumpDir, 0o755)
		os.WriteFile(filepath.Join(dumpDir, sanitizeFile(o.name)+".smt2"), []byte(vc), 0o644)
	}
	var outs []string
	sawUnsat, sawSat := "", ""
	total := 0.0
	for _, sp := range solvers {
		r, out, dt := runSolver(sp, vc, timeout)
		total += dt
		outs = append(outs, fmt.Sprintf("[%s] %s", sp.name, strings.TrimSpace(firstLines(out, 3))))
		if r == "unsat" {
			if sawUnsat == "" {
				sawUnsat = sp.name
			}
			if !thorough {
				break
			}
		}
		if r == "sat" {
			if sawSat == "" {
				sawSat = sp.name
			}
			if !thorough {
				break
			}
		}
	}
	o.Seconds = total
	o.Output = strings.Join(outs, "\n")
	switch {
	case sawUnsat != "" && sawSat != "":
		o.Status, o.Solver = "disagree", sawUnsat+"/"+sawSat
	case sawUnsat != "":
		o.Status, o.Solver = "unsat", sawUnsat
	case sawSat != "":
		// the slice dropped facts: confirm with the full context before calling it a counterexample
		fvc := e.sliceVC(o, true, nil)
		confirmed := false
		for _, sp := range solvers {
			r, out, dt := runSolver(sp, fvc, timeout)
			o.Seconds += dt
			o.Output += fmt.Sprintf("\n[%s full] %s", sp.name, strings.TrimSpace(firstLines(out, 3)))
			if r == "unsat" {
				o.Status, o.Solver = "unsat", sp.name+"(full)"
				return
			}
			if r == "sat" {
				confirmed = true
				o.Solver = sp.name
				break
			}
		}
		if confirmed {
			o.Status = "sat"
		} else {
			o.Status = "unknown"
		}
	default:
		o.Status = "unknown"
		// nobody decided it: one more attempt with a longer limit and another seed before giving up
		// (keeps a heavily loaded machine from turning a slow proof into an alarm)
		if h, ok := knownHashes[o.name]; ok && h == o.VCHash {
			break // the identical condition was discharged when the ledger was written: no need to wait for a retry
		}
		if os.Getenv("GOVC_NORETRY") != "" {
			break // must-fail corpus runs: an undecided obligation of a deliberately broken tree needs no second opinion
		}
		retry := solverSpec{"z3-new", func(t int) []string {
			return []string{"z3-new", fmt.Sprintf("-T:%d", t), "smt.random_seed=7", "-in"}
		}}
		r, out, dt := runSolver(retry, vc, timeout*10)
		o.Seconds += dt
		o.Output += fmt.Sprintf("\n[z3-new retry] %s", strings.TrimSpace(firstLines(out, 3)))
		if r == "unsat" {
			o.Status, o.Solver = "unsat", "z3-new(retry)"
		}
	}
}

func firstLines(s string, n int) string {
	ls := strings.Split(s, "\n")
	if len(ls) > n {
		ls = ls[:n]
	}
	return strings.Join(ls, " | ")
}

var fileSan = regexp.MustCompile(`[^A-Za-z0-9_.\-]+`)

func sanitizeFile(s string) string {
	s = fileSan.ReplaceAllString(s, "_")
	if len(s) > 150 {
		// keep names unique after truncation (two obligations of one clause differ only at the end)
		h := fnv.New32a()
		h.Write([]byte(s))
		s = fmt.Sprintf("%s_%08x", s[:150], h.Sum32())
	}
	return s
}

// solveAll discharges the given obligations, 16 at a time.
func solveAll(units []*UnitResult, filter func(*Oblig) bool, timeout int, thorough bool, dumpDir string) {
	type job struct {
		e *Engine
		o *Oblig
	}
	var jobs []job
	for _, u := range units {
		for _, o := range u.Obs {
			if o.Solver == "syntactic" {
				continue // decided by the generator
			}
			if filter == nil || filter(o) {
				jobs = append(jobs, job{u.engine, o})
			}
		}
		// slicing indexes are built lazily and read concurrently: build them now
		if len(u.Obs) > 0 {
			u.engine.sliceVC(u.Obs[0], false, nil)
		}
	}
	sem := make(chan struct{}, 16)
	var wg sync.WaitGroup
	// vacuity guard: the facts accumulated for a function together with "a return is reached" must be satisfiable;
	// contradictory assumptions (a bad requires, an unsound model) would discharge everything
	for _, u := range units {
		if u.RetPC == "" || u.RetPC == "false" || len(u.Obs) == 0 {
			continue
		}
		any := false
		for _, o := range u.Obs {
			if o.Solver != "syntactic" && (filter == nil || filter(o)) {
				any = true
			}
		}
		if !any {
			continue
		}
		wg.Add(1)
		go func(u *UnitResult) {
			defer wg.Done()
			sem <- struct{}{}
			defer func() { <-sem }()
			cover := &Oblig{Func: u.Key, Kind: "cover", Label: "return reachable", PC: u.RetPC, Cond: "false", nf: len(u.engine.facts), name: u.Pkg + "/" + strings.TrimPrefix(u.Key, "func ") + "/cover/return-reachable"}
			vc := u.engine.sliceVC(cover, true, nil)
			for _, sp := range []solverSpec{solvers[0], solvers[1]} {
				r, _, _ := runSolver(sp, vc, 5)
				if r == "unsat" {
					u.Vacuous = sp.name
					return
				}
				if r == "sat" {
					return
				}
			}
		}(u)
	}
	for _, j := range jobs {
		wg.Add(1)
		go func(j job) {
			defer wg.Done()
			sem <- struct{}{}
			defer func() { <-sem }()
			j.e.solveOb(j.o, timeout, thorough, dumpDir)
		}(j)
	}
	// cover checks (thorough tier, or GOVC_COVERS=1): every return statement of a checked function must be reachable under the
	// facts collected for it. A return that is not is either dead code or the footprint of contradictory assumptions on that
	// path (the obligations on such a path hold vacuously); the list goes into the evidence and is compared with specs/dead_returns.json
	if thorough || os.Getenv("GOVC_COVERS") != "" {
		var mu sync.Mutex
		for _, u := range units {
			if len(u.Obs) == 0 || len(u.RetSites) < 2 {
				continue
			}
			any := false
			for _, o := range u.Obs {
				if o.Solver != "syntactic" && (filter == nil || filter(o)) {
					any = true
				}
			}
			if !any {
				continue
			}
			for i, rs := range u.RetSites {
				wg.Add(1)
				go func(u *UnitResult, i int, rs RetSite) {
					defer wg.Done()
					sem <- struct{}{}
					defer func() { <-sem }()
					cover := &Oblig{Func: u.Key, Kind: "cover", Label: "return reachable", PC: rs.PC, Cond: "false", nf: len(u.engine.facts), name: fmt.Sprintf("%s/%s/cover/return#%d", u.Pkg, strings.TrimPrefix(u.Key, "func "), i)}
					vc := u.engine.sliceVC(cover, true, nil)
					for _, sp := range []solverSpec{solvers[0], solvers[1]} {
						r, _, _ := runSolver(sp, vc, 5)
						if r == "unsat" {
							if d := os.Getenv("GOVC_COVERDUMP"); d != "" {
								os.WriteFile(filepath.Join(d, sanitizeFile(cover.name)+".smt2"), []byte(vc), 0o644)
							}
							mu.Lock()
							u.DeadRets = append(u.DeadRets, fmt.Sprintf("%s#%d", rs.Where, i))
							mu.Unlock()
							return
						}
						if r == "sat" {
							return
						}
					}
				}(u, i, rs)
			}
		}
	}
	wg.Wait()
	for _, u := range units {
		sort.Strings(u.DeadRets)
	}
}
