// govc: symbolic values, sorts, integer semantics and the component heap.
package main

import (
	"os"
	"sync/atomic"
	"fmt"
	"go/types"
	"regexp"
	"sort"
	"strings"
)

// ---------- values ----------

// Val is a symbolic Go value.
type Val interface{}

// Sc is a scalar SMT term (Int, Bool, Str, Flt; references for maps, interfaces, funcs, opaque pointers).
type Sc struct{ T string }

// SliceV is a slice header: backing array reference, offset into it, length, capacity.
type SliceV struct{ B, O, L, C string }

// StructV is a struct by value.
type StructV struct{ F []Val }

// TupleV is a multi-value result.
type TupleV []Val

// PtrV is a pointer with a symbolic location.
type PtrV struct{ L *Loc }

// ClosV is a closure created in the function under execution.
type ClosV struct {
	Fn    interface{} // *ssa.Function
	Binds []Val
	Ref   string
}

const (
	LObj   = 0 // an object (struct, cell) identified by a reference term
	LField = 1 // a field of Parent
	LElem  = 2 // element Index of the backing array Base
)

// Loc is a symbolic memory location.
type Loc struct {
	Kind   int
	Ref    string // LObj
	Parent *Loc   // LField
	Idx    int    // LField
	Base   string // LElem
	Index  string // LElem
	T      types.Type
}

func under(t types.Type) types.Type { return t.Underlying() }

const maxCap = "281474976710656" // 2^48, Go's maxAlloc on amd64 (assumption A1)

// ---------- integer types ----------

type intInfo struct {
	lo, hi, mod string
	signed      bool
	bits        int
}

func intInfoOf(t types.Type) (intInfo, bool) {
	b, isb := under(t).(*types.Basic)
	if !isb || b.Info()&types.IsInteger == 0 {
		return intInfo{}, false
	}
	switch b.Kind() {
	case types.Int8:
		return intInfo{"(- 128)", "127", "256", true, 8}, true
	case types.Int16:
		return intInfo{"(- 32768)", "32767", "65536", true, 16}, true
	case types.Int32:
		return intInfo{"(- 2147483648)", "2147483647", "4294967296", true, 32}, true
	case types.Int64, types.Int:
		return intInfo{"(- 9223372036854775808)", "9223372036854775807", "18446744073709551616", true, 64}, true
	case types.Uint8:
		return intInfo{"0", "255", "256", false, 8}, true
	case types.Uint16:
		return intInfo{"0", "65535", "65536", false, 16}, true
	case types.Uint32:
		return intInfo{"0", "4294967295", "4294967296", false, 32}, true
	case types.Uint64, types.Uint, types.Uintptr:
		return intInfo{"0", "18446744073709551615", "18446744073709551616", false, 64}, true
	case types.UntypedInt, types.UntypedRune:
		return intInfo{"(- 9223372036854775808)", "9223372036854775807", "18446744073709551616", true, 64}, true
	}
	return intInfo{}, false
}

func isInt(t types.Type) bool { _, ok := intInfoOf(t); return ok }

// wrapFull is the general two's-complement wrap of a mathematical integer x to type t.
func wrapFull(t types.Type, x string) string {
	ii, _ := intInfoOf(t)
	if !ii.signed {
		return fmt.Sprintf("(mod %s %s)", x, ii.mod)
	}
	return fmt.Sprintf("(+ (mod (- %s %s) %s) %s)", x, ii.lo, ii.mod, ii.lo)
}

// wrapOnce wraps a value known to be within one modulus of the range (sum or difference of two in-range values).
func wrapOnce(t types.Type, x string) string {
	ii, _ := intInfoOf(t)
	return fmt.Sprintf("(ite (> %s %s) (- %s %s) (ite (< %s %s) (+ %s %s) %s))", x, ii.hi, x, ii.mod, x, ii.lo, x, ii.mod, x)
}

func rangeFact(t types.Type, v string) string {
	ii, ok := intInfoOf(t)
	if !ok {
		return ""
	}
	return fmt.Sprintf("(and (<= %s %s) (<= %s %s))", ii.lo, v, v, ii.hi)
}

// ---------- sorts ----------

func sortOf(t types.Type) string {
	switch u := under(t).(type) {
	case *types.Basic:
		switch {
		case u.Info()&types.IsBoolean != 0:
			return "Bool"
		case u.Info()&types.IsInteger != 0:
			return "Int"
		case u.Info()&types.IsString != 0:
			return "Str"
		case u.Info()&types.IsFloat != 0:
			return "Flt"
		case u.Info()&types.IsComplex != 0:
			return "Flt"
		default:
			return "Int"
		}
	case *types.Pointer, *types.Map, *types.Chan, *types.Signature, *types.Interface:
		return "Int"
	}
	return ""
}

func isStr(t types.Type) bool   { return sortOf(t) == "Str" }
func isBoolT(t types.Type) bool { return sortOf(t) == "Bool" }
func isIface(t types.Type) bool { _, ok := under(t).(*types.Interface); return ok }
func isPtr(t types.Type) bool   { _, ok := under(t).(*types.Pointer); return ok }

var tnameRepl = strings.NewReplacer(" ", "", "*", "P.", "[", "<", "]", ">", "{", "(", "}", ")", ";", ",", "|", "!", "\\", "!", "\"", "'", "\n", "", "\t", "")

var byteRe = regexp.MustCompile(`\bbyte\b`)
var runeRe = regexp.MustCompile(`\brune\b`)

func tname(t types.Type) string {
	s := types.TypeString(t, func(p *types.Package) string { return p.Name() })
	s = runeRe.ReplaceAllString(byteRe.ReplaceAllString(s, "uint8"), "int32") // the universe aliases name the same types
	if len(s) > 80 {
		s = s[:80] + fmt.Sprintf("#%d", len(s))
	}
	return tnameRepl.Replace(s)
}

func q(s string) string { return "|" + s + "|" }

// ---------- facts, declarations ----------

type Fact struct {
	Def  string // non-empty: this fact defines symbol Def
	Term string
}

func (e *Engine) fresh(prefix, sort string) string {
	e.n++
	nm := q(fmt.Sprintf("%s!%d", tnameRepl.Replace(prefix), e.n))
	e.decls[nm] = sort
	e.declOrder = append(e.declOrder, nm)
	return nm
}

func (e *Engine) define(prefix, sort, term string) string {
	nm := e.fresh(prefix, sort)
	e.facts = append(e.facts, Fact{Def: nm, Term: fmt.Sprintf("(= %s %s)", nm, term)})
	return nm
}

// assume records a fact that constrains freshly introduced symbols only (results of calls, allocations, havoced state):
// such a fact is satisfiable whatever the older symbols are, so it can be stated for every path.
func (e *Engine) assume(term string) {
	if term == "" || term == "true" {
		return
	}
	if e.condAssume && os.Getenv("GOVC_NOCOND") == "" && e.curPC != "" && e.curPC != "true" && !strings.HasPrefix(term, "(forall") {
		// inside a native model: what it says about its results presupposes arguments in range, which holds on the path that
		// (quantified facts define fresh arrays pointwise and stay global: they are consistent for any arguments)
		// executes the call only (on other paths the argument terms are junk and the fact could be contradictory)
		term = fmt.Sprintf("(=> %s %s)", e.curPC, term)
	}
	e.facts = append(e.facts, Fact{Term: term})
}

// assumePC records a fact about a *defined* term (a value read from the heap): it holds under the path condition of
// the instruction being executed only. On a path that is not taken the heap term is junk (merges fall through to an
// arbitrary branch), and an unconditional type invariant about it could contradict the facts of the paths that are taken.
func (e *Engine) assumePC(term string) {
	if term == "" || term == "true" {
		return
	}
	if e.curPC != "" && e.curPC != "true" {
		term = fmt.Sprintf("(=> %s %s)", e.curPC, term)
	}
	e.facts = append(e.facts, Fact{Term: term})
}

// assumeGlobal records a fact that holds on every path (relations between path conditions, axioms).
func (e *Engine) assumeGlobal(term string) {
	if term == "" || term == "true" {
		return
	}
	e.facts = append(e.facts, Fact{Term: term})
}

// assumeIf adds pc => term.
func (e *Engine) assumeIf(pc, term string) {
	if term == "" || term == "true" {
		return
	}
	if pc == "true" || pc == "" {
		e.assume(term)
		return
	}
	e.assumeGlobal(fmt.Sprintf("(=> %s %s)", pc, term))
}

// global declares (once) a named constant.
func (e *Engine) global(name, sort string) string {
	nm := q(name)
	if _, ok := e.decls[nm]; !ok {
		e.decls[nm] = sort
		e.declOrder = append(e.declOrder, nm)
	}
	return nm
}

func and(a ...string) string {
	var r []string
	for _, x := range a {
		if x == "false" {
			return "false"
		}
		if x != "true" && x != "" {
			r = append(r, x)
		}
	}
	if len(r) == 0 {
		return "true"
	}
	if len(r) == 1 {
		return r[0]
	}
	return "(and " + strings.Join(r, " ") + ")"
}

func or(a ...string) string {
	var r []string
	for _, x := range a {
		if x == "true" {
			return "true"
		}
		if x != "false" && x != "" {
			r = append(r, x)
		}
	}
	if len(r) == 0 {
		return "false"
	}
	if len(r) == 1 {
		return r[0]
	}
	return "(or " + strings.Join(r, " ") + ")"
}

func not(a string) string {
	switch a {
	case "true":
		return "false"
	case "false":
		return "true"
	}
	return "(not " + a + ")"
}

func imp(a, b string) string {
	if a == "true" {
		return b
	}
	return fmt.Sprintf("(=> %s %s)", a, b)
}

// ---------- havoc / zero ----------

func (e *Engine) sliceInv(s SliceV) string {
	return fmt.Sprintf("(and (<= 0 %s) (<= 0 %s) (<= %s %s) (<= (+ %s %s) %s) (=> (= %s 0) (= %s 0)))", s.O, s.L, s.L, s.C, s.O, s.C, maxCap, s.B, s.C)
}

// havocVal makes an unconstrained value of type t carrying its type invariants.
func (e *Engine) havocVal(prefix string, t types.Type) Val {
	switch u := under(t).(type) {
	case *types.Slice:
		s := SliceV{e.fresh(prefix+".b", "Int"), e.fresh(prefix+".o", "Int"), e.fresh(prefix+".l", "Int"), e.fresh(prefix+".c", "Int")}
		e.assume(e.sliceInv(s))
		return s
	case *types.Struct:
		sv := StructV{}
		for i := 0; i < u.NumFields(); i++ {
			sv.F = append(sv.F, e.havocVal(prefix+"."+u.Field(i).Name(), u.Field(i).Type()))
		}
		return sv
	case *types.Tuple:
		tv := TupleV{}
		for i := 0; i < u.Len(); i++ {
			tv = append(tv, e.havocVal(fmt.Sprintf("%s#%d", prefix, i), u.At(i).Type()))
		}
		return tv
	case *types.Array:
		e.unsupp["array-by-value:"+tname(t)]++
		return Sc{e.fresh(prefix, "Int")}
	case *types.Pointer:
		r := e.fresh(prefix, "Int")
		return PtrV{&Loc{Kind: LObj, Ref: r, T: u.Elem()}}
	}
	so := sortOf(t)
	if so == "" {
		e.unsupp["sort:"+t.String()]++
		so = "Int"
	}
	v := e.fresh(prefix, so)
	if rf := rangeFact(t, v); rf != "" {
		e.assume(rf)
	}
	if so == "Int" && !isInt(t) {
		if _, isMap := under(t).(*types.Map); isMap {
			e.assume(fmt.Sprintf("(>= %s 0)", v))
		}
	}
	return Sc{v}
}

func (e *Engine) zero(t types.Type) Val {
	switch u := under(t).(type) {
	case *types.Slice:
		return SliceV{"0", "0", "0", "0"}
	case *types.Struct:
		sv := StructV{}
		for i := 0; i < u.NumFields(); i++ {
			sv.F = append(sv.F, e.zero(u.Field(i).Type()))
		}
		return sv
	case *types.Pointer:
		return PtrV{&Loc{Kind: LObj, Ref: "0", T: u.Elem()}}
	case *types.Tuple:
		tv := TupleV{}
		for i := 0; i < u.Len(); i++ {
			tv = append(tv, e.zero(u.At(i).Type()))
		}
		return tv
	}
	switch sortOf(t) {
	case "Bool":
		return Sc{"false"}
	case "Str":
		return Sc{"emptystr"}
	case "Flt":
		return Sc{"fzero"}
	}
	return Sc{"0"}
}

// ---------- heap ----------

// Heap maps a component name to the SMT array term holding its current contents.
type Heap struct {
	m     map[string]string
	dirty map[string]bool // component was written or havoced since function entry
	pendH map[string]int // havoced before first use (name or prefix*), by havoc event: first use must not see the entry contents
	all   int            // everything was havoced at some point (event id)
}

// pendSeq numbers havoc events, so that every copy of a heap names the not-yet-used result of one havoc identically.
var pendSeq int64

func newHeap() *Heap { return &Heap{m: map[string]string{}, dirty: map[string]bool{}, pendH: map[string]int{}} }

func (h *Heap) clone() *Heap {
	n := newHeap()
	for k, v := range h.m {
		n.m[k] = v
	}
	for k, v := range h.dirty {
		n.dirty[k] = v
	}
	for k, v := range h.pendH {
		n.pendH[k] = v
	}
	n.all = h.all
	return n
}

func (h *Heap) pend(k string) { h.pendH[k] = int(atomic.AddInt64(&pendSeq, 1)) }

func (h *Heap) pendAll() { h.all = int(atomic.AddInt64(&pendSeq, 1)) }

func (h *Heap) pending(name string) bool { return h.pendingID(name) > 0 }

// pendingID: the latest havoc event covering the component (0 if none).
func (h *Heap) pendingID(name string) int {
	id := h.all
	if v := h.pendH[name]; v > id {
		id = v
	}
	for k, v := range h.pendH {
		if v > id && strings.HasSuffix(k, "*") && strings.HasPrefix(name, strings.TrimSuffix(k, "*")) {
			id = v
		}
	}
	return id
}

// pendSym names the contents a pending havoc left in a component: the same symbol in every copy of the heap.
func (e *Engine) pendSym(h *Heap, name, sort string) string {
	nm := e.global(fmt.Sprintf("Hv.%s@%d", name, h.pendingID(name)), sort)
	e.byteRange(name, nm)
	return nm
}

// comp returns the current array term of a component, creating its initial version on first use.
func (e *Engine) comp(h *Heap, name, elemSort string, two bool) string {
	if v, ok := h.m[name]; ok {
		return v
	}
	full := fmt.Sprintf("(Array Int %s)", elemSort)
	if two {
		full = fmt.Sprintf("(Array Int (Array Int %s))", elemSort)
	}
	if old, ok := e.comps[name]; ok && old != full {
		panic("component sort clash: " + name + " " + old + " vs " + full)
	}
	e.comps[name] = full
	var nm string
	if h.pending(name) {
		nm = e.pendSym(h, name, full)
		h.dirty[name] = true
	} else {
		nm = e.initial(name)
	}
	h.m[name] = nm
	return nm
}

func (e *Engine) initial(name string) string {
	if v, ok := e.initials[name]; ok {
		return v
	}
	nm := e.global("H0."+name, e.comps[name])
	e.initials[name] = nm
	e.byteRange(name, nm)
	return nm
}

// byteRange: every element of an unconstrained version of the byte store is a byte. Values read by the code get their
// type range at the read; contracts, however, mention raw elements (le64at(buf, k), buf[k] == ...), and without this
// axiom a counterexample may assign "bytes" outside 0..255 that no input can realise.
func (e *Engine) byteRange(name, arr string) {
	if name != "E.uint8" || e.comps[name] != "(Array Int (Array Int Int))" {
		return
	}
	key := "byterange:" + arr
	if e.once[key] {
		return
	}
	e.once[key] = true
	// Used when a counterexample is extracted for replay, not in the proof queries: there it can only prune models, and on
	// some obligations it sends z3's quantifier instantiation astray (a 0.6 s proof became a timeout).
	e.replayFacts = append(e.replayFacts, [2]string{arr, fmt.Sprintf("(assert (forall ((r Int) (j Int)) (! (and (<= 0 (select (select %s r) j)) (<= (select (select %s r) j) 255)) :pattern ((select (select %s r) j)))))", arr, arr, arr)})
}

func (e *Engine) setComp(h *Heap, name, term string) {
	h.m[name] = e.define("H."+name, e.comps[name], term)
	h.dirty[name] = true
}

func (e *Engine) havocComp(h *Heap, name string) {
	if _, ok := e.comps[name]; !ok {
		return
	}
	h.m[name] = e.fresh("Hv."+name, e.comps[name])
	h.dirty[name] = true
	e.byteRange(name, h.m[name])
}

// compName gives the heap component (and index terms) holding the scalar content of location l.
// suffix distinguishes the four words of a slice header.
func (e *Engine) compName(l *Loc) (string, []string) {
	switch l.Kind {
	case LObj:
		return "C." + tname(l.T), []string{l.Ref}
	case LElem:
		return "E." + tname(l.T), []string{l.Base, l.Index}
	case LField:
		path := []string{}
		p := l
		for p.Kind == LField {
			st := under(p.Parent.T).(*types.Struct)
			path = append([]string{st.Field(p.Idx).Name()}, path...)
			p = p.Parent
		}
		if p.Kind == LObj {
			return "F." + tname(p.T) + "." + strings.Join(path, "."), []string{p.Ref}
		}
		return "E." + tname(p.T) + "." + strings.Join(path, "."), []string{p.Base, p.Index}
	}
	panic("loc kind")
}

// fieldLoc is the location of field idx of the struct at parent. Nested struct fields of objects are
// objects of their own, addressed by (sub parent idx), so that &x.f can be passed to methods.
func (e *Engine) fieldLoc(parent *Loc, idx int) *Loc {
	st, ok := under(parent.T).(*types.Struct)
	if !ok {
		panic("fieldLoc of non-struct " + parent.T.String())
	}
	ft := st.Field(idx).Type()
	if _, isStruct := under(ft).(*types.Struct); isStruct && parent.Kind == LObj {
		ref := fmt.Sprintf("(sub %s %d)", parent.Ref, idx)
		key := "sub:" + ref
		if !e.once[key] {
			e.once[key] = true
			e.useSub = true
			e.assumeGlobal(fmt.Sprintf("(and (= (subp %s) %s) (= (subi %s) %d) (not (= %s 0)) (= (> %s pre) (> %s pre)))", ref, parent.Ref, ref, idx, ref, ref, parent.Ref))
		}
		return &Loc{Kind: LObj, Ref: ref, T: ft}
	}
	return &Loc{Kind: LField, Parent: parent, Idx: idx, T: ft}
}

func (e *Engine) loadScalar(h *Heap, l *Loc, sort, suffix string) string {
	t, _ := e.loadScalarF(h, l, sort, suffix)
	return t
}

// markRef records that a component holds references (pointers, slice bases, interfaces, maps, funcs).
func (e *Engine) markRef(l *Loc, suffix string) {
	name, _ := e.compName(l)
	if e.refComp == nil {
		e.refComp = map[string]bool{}
	}
	e.refComp[name+suffix] = true
}

func isRefType(t types.Type) bool {
	switch under(t).(type) {
	case *types.Pointer, *types.Interface, *types.Map, *types.Signature, *types.Chan:
		return true
	}
	return false
}

// loadScalarF also reports whether the value was found by syntactic store-to-load forwarding
// (the location was written earlier in this execution with exactly this index term).
func (e *Engine) loadScalarF(h *Heap, l *Loc, sort, suffix string) (string, bool) {
	name, idx := e.compName(l)
	name += suffix
	arr := e.comp(h, name, sort, len(idx) == 2)
	if len(idx) == 2 {
		return fmt.Sprintf("(select (select %s %s) %s)", arr, idx[0], idx[1]), false
	}
	for sym := arr; ; {
		d, ok := e.storeDefs[sym]
		if !ok {
			break
		}
		if d.idx == idx[0] {
			return d.val, true
		}
		if strings.HasPrefix(d.idx, "|alloc.") && strings.HasPrefix(idx[0], "|alloc.") {
			sym = d.prev // two different allocations never alias
			continue
		}
		break
	}
	return fmt.Sprintf("(select %s %s)", arr, idx[0]), false
}

func (e *Engine) storeScalar(h *Heap, l *Loc, sort, suffix, v string) {
	name, idx := e.compName(l)
	name += suffix
	arr := e.comp(h, name, sort, len(idx) == 2)
	var nt string
	if len(idx) == 2 {
		nt = fmt.Sprintf("(store %s %s (store (select %s %s) %s %s))", arr, idx[0], arr, idx[0], idx[1], v)
	} else {
		nt = fmt.Sprintf("(store %s %s %s)", arr, idx[0], v)
	}
	e.setComp(h, name, nt)
	if len(idx) == 1 {
		e.storeDefs[h.m[name]] = storeDef{prev: arr, idx: idx[0], val: v}
	}
}

// pristine reports whether the named component still has its function-entry contents.
func (e *Engine) pristine(h *Heap, l *Loc, suffix string) bool {
	name, _ := e.compName(l)
	return !h.dirty[name+suffix]
}

// water is the allocation watermark: every reference that exists now is at most this value; every later
// allocation is above it.
func (e *Engine) water() string {
	if e.lastAlloc == "" {
		return "pre"
	}
	return e.lastAlloc
}

// bumpWater introduces a new watermark after code that may have allocated (a call, earlier loop iterations).
func (e *Engine) bumpWater(prefix string) string {
	m := e.fresh(prefix+".mark", "Int")
	e.assumeGlobal(fmt.Sprintf("(and (>= %s %s) (>= %s pre))", m, e.water(), m))
	e.lastAlloc = m
	return m
}

// preFact: a pre-existing object's unmodified field holds a pre-existing reference.
func (e *Engine) preFact(l *Loc, v string) string {
	root := l
	for root.Kind == LField {
		root = root.Parent
	}
	var idx string
	if root.Kind == LObj {
		idx = root.Ref
	} else {
		idx = root.Base
	}
	return fmt.Sprintf("(=> (<= %s pre) (<= %s pre))", idx, v)
}

// load reads the value at location l. named=false yields raw select terms (used in specifications).
func (e *Engine) load(h *Heap, l *Loc) Val {
	if _, isSl := under(l.T).(*types.Slice); isSl {
		e.markRef(l, ".b")
	} else if isRefType(l.T) {
		e.markRef(l, "")
	}
	switch u := under(l.T).(type) {
	case *types.Slice:
		s := SliceV{
			e.define("ld.b", "Int", e.loadScalar(h, l, "Int", ".b")),
			e.define("ld.o", "Int", e.loadScalar(h, l, "Int", ".o")),
			e.define("ld.l", "Int", e.loadScalar(h, l, "Int", ".l")),
			e.define("ld.c", "Int", e.loadScalar(h, l, "Int", ".c")),
		}
		e.assumePC(e.sliceInv(s))
		if e.pristine(h, l, ".b") {
			e.assumePC(e.preFact(l, s.B))
		}
		e.assumePC(fmt.Sprintf("(<= %s %s)", s.B, e.water()))
		return s
	case *types.Struct:
		sv := StructV{}
		for i := 0; i < u.NumFields(); i++ {
			sv.F = append(sv.F, e.load(h, e.fieldLoc(l, i)))
		}
		return sv
	case *types.Pointer:
		t, fwd := e.loadScalarF(h, l, "Int", "")
		if fwd {
			return PtrV{&Loc{Kind: LObj, Ref: t, T: u.Elem()}}
		}
		r := e.define("ld.p", "Int", t)
		if e.pristine(h, l, "") {
			e.assumePC(e.preFact(l, r))
		}
		e.assumePC(fmt.Sprintf("(<= %s %s)", r, e.water()))
		return PtrV{&Loc{Kind: LObj, Ref: r, T: u.Elem()}}
	case *types.Array:
		e.unsupp["load-array:"+tname(l.T)]++
		return Sc{e.fresh("arr", "Int")}
	}
	so := sortOf(l.T)
	if so == "" {
		so = "Int"
	}
	t0, fwd := e.loadScalarF(h, l, so, "")
	if fwd {
		return Sc{t0}
	}
	v := e.define("ld", so, t0)
	if rf := rangeFact(l.T, v); rf != "" {
		e.assumePC(rf)
	}
	if so == "Int" && !isInt(l.T) {
		if e.pristine(h, l, "") {
			e.assumePC(e.preFact(l, v))
		}
		e.assumePC(fmt.Sprintf("(<= %s %s)", v, e.water()))
	}
	return Sc{v}
}

// loadRaw reads without introducing names or invariants (for specification terms).
func (e *Engine) loadRaw(h *Heap, l *Loc) Val {
	if _, isSl := under(l.T).(*types.Slice); isSl {
		e.markRef(l, ".b")
	} else if isRefType(l.T) {
		e.markRef(l, "")
	}
	switch u := under(l.T).(type) {
	case *types.Slice:
		return SliceV{e.loadScalar(h, l, "Int", ".b"), e.loadScalar(h, l, "Int", ".o"), e.loadScalar(h, l, "Int", ".l"), e.loadScalar(h, l, "Int", ".c")}
	case *types.Struct:
		sv := StructV{}
		for i := 0; i < u.NumFields(); i++ {
			sv.F = append(sv.F, e.loadRaw(h, e.fieldLoc(l, i)))
		}
		return sv
	case *types.Pointer:
		return PtrV{&Loc{Kind: LObj, Ref: e.loadScalar(h, l, "Int", ""), T: u.Elem()}}
	case *types.Array:
		return Sc{e.fresh("arr", "Int")}
	}
	so := sortOf(l.T)
	if so == "" {
		so = "Int"
	}
	return Sc{e.loadScalar(h, l, so, "")}
}

func (e *Engine) store(h *Heap, l *Loc, v Val) {
	switch u := under(l.T).(type) {
	case *types.Slice:
		s, ok := v.(SliceV)
		if !ok {
			s = SliceV{"0", "0", "0", "0"}
		}
		e.storeScalar(h, l, "Int", ".b", s.B)
		e.storeScalar(h, l, "Int", ".o", s.O)
		e.storeScalar(h, l, "Int", ".l", s.L)
		e.storeScalar(h, l, "Int", ".c", s.C)
		return
	case *types.Struct:
		sv, ok := v.(StructV)
		for i := 0; i < u.NumFields(); i++ {
			var fv Val
			if ok && i < len(sv.F) {
				fv = sv.F[i]
			} else {
				fv = e.havocVal("st", u.Field(i).Type())
			}
			e.store(h, e.fieldLoc(l, i), fv)
		}
		return
	case *types.Pointer:
		e.storeScalar(h, l, "Int", "", e.ptrTerm(v))
		return
	case *types.Array:
		e.unsupp["store-array:"+tname(l.T)]++
		return
	}
	so := sortOf(l.T)
	if so == "" {
		so = "Int"
	}
	e.storeScalar(h, l, so, "", e.scalar(v))
}

// storeComps lists the component names a store of a value of l.T at l writes.
func (e *Engine) storeComps(l *Loc, out map[string]bool) {
	switch u := under(l.T).(type) {
	case *types.Slice:
		name, _ := e.compName(l)
		for _, s := range []string{".b", ".o", ".l", ".c"} {
			out[name+s] = true
		}
		return
	case *types.Struct:
		for i := 0; i < u.NumFields(); i++ {
			e.storeComps(e.fieldLoc(l, i), out)
		}
		return
	case *types.Array:
		return
	}
	name, _ := e.compName(l)
	out[name] = true
}

// objComps lists (component, index) pairs holding the scalar state of the object at l, nested structs included.
// leafType remembers the Go type stored in a component (for the type invariants of havoced entries).
func (e *Engine) noteLeaf(comp string, t types.Type) {
	if e.leafT == nil {
		e.leafT = map[string]types.Type{}
	}
	e.leafT[comp] = t
}

func (e *Engine) objComps(l *Loc, out *[][2]string) {
	switch u := under(l.T).(type) {
	case *types.Slice:
		name, idx := e.compName(l)
		if len(idx) == 1 {
			for _, s := range []string{".b", ".o", ".l", ".c"} {
				*out = append(*out, [2]string{name + s, idx[0]})
				e.noteLeaf(name+s, types.Typ[types.Int])
				if _, ok := e.comps[name+s]; !ok {
					e.comps[name+s] = "(Array Int Int)"
				}
			}
		}
		return
	case *types.Struct:
		for i := 0; i < u.NumFields(); i++ {
			e.objComps(e.fieldLoc(l, i), out)
		}
		return
	case *types.Array:
		return
	}
	name, idx := e.compName(l)
	if len(idx) == 1 {
		*out = append(*out, [2]string{name, idx[0]})
		e.noteLeaf(name, l.T)
		if _, ok := e.comps[name]; !ok {
			so := sortOf(l.T)
			if so == "" {
				so = "Int"
			}
			e.comps[name] = fmt.Sprintf("(Array Int %s)", so)
		}
	}
}

func (e *Engine) ptrTerm(v Val) string {
	switch p := v.(type) {
	case PtrV:
		if p.L.Kind == LObj {
			return p.L.Ref
		}
		e.unsupp["interior-pointer-escapes"]++
		return e.fresh("iptr", "Int")
	case Sc:
		return p.T
	case ClosV:
		return p.Ref
	}
	return "0"
}

func (e *Engine) scalar(v Val) string {
	switch p := v.(type) {
	case Sc:
		return p.T
	case PtrV:
		return e.ptrTerm(v)
	case ClosV:
		return p.Ref
	case SliceV:
		return p.B
	}
	e.unsupp[fmt.Sprintf("scalar-of-%T", v)]++
	return e.fresh("unk", "Int")
}

// ---------- merging ----------

func iteChain(conds, vals []string) string {
	t := vals[len(vals)-1]
	for i := len(vals) - 2; i >= 0; i-- {
		if vals[i] == t {
			continue
		}
		t = fmt.Sprintf("(ite %s %s %s)", conds[i], vals[i], t)
	}
	return t
}

func (e *Engine) mergeVals(prefix string, t types.Type, conds []string, vs []Val) Val {
	if len(vs) == 1 {
		return vs[0]
	}
	switch v0 := vs[0].(type) {
	case SliceV:
		get := func(sel func(SliceV) string) string {
			var ts []string
			for _, v := range vs {
				sv, ok := v.(SliceV)
				if !ok {
					sv = SliceV{"0", "0", "0", "0"}
				}
				ts = append(ts, sel(sv))
			}
			return e.define(prefix, "Int", iteChain(conds, ts))
		}
		return SliceV{get(func(s SliceV) string { return s.B }), get(func(s SliceV) string { return s.O }), get(func(s SliceV) string { return s.L }), get(func(s SliceV) string { return s.C })}
	case TupleV:
		out := TupleV{}
		for i := range v0 {
			var sub []Val
			for _, v := range vs {
				sub = append(sub, v.(TupleV)[i])
			}
			out = append(out, e.mergeVals(prefix, under(t).(*types.Tuple).At(i).Type(), conds, sub))
		}
		return out
	case StructV:
		out := StructV{}
		st := under(t).(*types.Struct)
		for i := range v0.F {
			var sub []Val
			for _, v := range vs {
				sub = append(sub, v.(StructV).F[i])
			}
			out.F = append(out.F, e.mergeVals(prefix, st.Field(i).Type(), conds, sub))
		}
		return out
	case PtrV:
		same := true
		var ts []string
		for _, v := range vs {
			ts = append(ts, e.ptrTerm(v))
			if ts[len(ts)-1] != ts[0] {
				same = false
			}
		}
		if same {
			return v0
		}
		return PtrV{&Loc{Kind: LObj, Ref: e.define(prefix, "Int", iteChain(conds, ts)), T: v0.L.T}}
	}
	so := sortOf(t)
	if so == "" {
		so = "Int"
	}
	var ts []string
	same := true
	for _, v := range vs {
		ts = append(ts, e.scalar(v))
		if ts[len(ts)-1] != ts[0] {
			same = false
		}
	}
	if same {
		return vs[0]
	}
	return Sc{e.define(prefix, so, iteChain(conds, ts))}
}

func (e *Engine) mergeHeaps(conds []string, hs []*Heap) *Heap {
	if len(hs) == 1 {
		return hs[0].clone()
	}
	out := newHeap()
	keys := map[string]bool{}
	for _, h := range hs {
		for k := range h.m {
			keys[k] = true
		}
		for k, v := range h.dirty {
			if v {
				out.dirty[k] = true
			}
		}
		for k, v := range h.pendH {
			if v > out.pendH[k] {
				out.pendH[k] = v
			}
		}
		if h.all > out.all {
			out.all = h.all
		}
	}
	var ks []string
	for k := range keys {
		ks = append(ks, k)
	}
	sort.Strings(ks)
	for _, k := range ks {
		var ts []string
		same := true
		for _, h := range hs {
			v, ok := h.m[k]
			if !ok {
				if h.pending(k) {
					v = e.pendSym(h, k, e.comps[k])
				} else {
					v = e.initial(k)
				}
			}
			ts = append(ts, v)
			if v != ts[0] {
				same = false
			}
		}
		if same {
			out.m[k] = ts[0]
			continue
		}
		out.m[k] = e.define("Hm."+k, e.comps[k], iteChain(conds, ts))
		e.mergeDefs[out.m[k]] = append([]string{}, ts...)
	}
	return out
}
