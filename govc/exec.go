// govc: symbolic execution of go/ssa function bodies into verification conditions.
package main

import (
	"fmt"
	"go/ast"
	"go/constant"
	"go/token"
	"go/types"
	"math/big"
	"os"
	"sort"
	"strings"

	"golang.org/x/tools/go/ssa"
)

// Oblig is one proof obligation: under the facts of its engine, PC implies Cond.
type Oblig struct {
	Func  string // function under verification
	In    string // function whose code produced it (differs from Func when inlined)
	Kind  string
	Label string
	Tags  []string
	PC    string
	Cond  string
	Pos   token.Position
	// filled by the solver
	Status  string
	Solver  string
	Seconds float64
	Output  string
	name    string
	nf      int // number of facts known when the obligation was generated: only those may be used
	clause  *Clause // the contract clause a post obligation stems from (for replay)
	VCHash  string  // hash of the verification condition sent to the solvers (comments excluded)
}

type Engine struct {
	replayFacts [][2]string // (array symbol, assertion): added to the queries that extract a counterexample for replay
	specCtx  string   // "loop"/"call" while clauses attached to code locations are evaluated (they may name locals)
	stale    []string // such clauses that name a local the code no longer has
	condAssume bool // assume() is conditional on the current path condition (set while a native model runs)
	w         *World
	unit      *ssa.Function
	decls     map[string]string
	declOrder []string
	facts     []Fact
	obs       []*Oblig
	n         int
	comps     map[string]string
	initials  map[string]string
	once      map[string]bool
	unsupp    map[string]int
	unmod     map[string]int
	inlined   map[string]int
	trusted   map[string]int
	imprecise map[string]int
	strlits   map[string]string
	tags      map[string]int
	useSub    bool
	useStrQ   bool
	useQuant  bool
	useLE     bool
	useStrIdx bool
	useStrLe  bool
	useRes    bool
	useCRC    bool
	specErrs  []string
	defOf     map[string][]int
	mention   map[string][]int
	ifaces    map[string]IfaceInfo
	quiet     bool // summary mode: no obligations
	modelVars []modelVar
	allocN    int
	lastAlloc string
	// inputBytes: total size of the slices and strings the caller passed in (allocations proportional to it are the caller's doing)
	inputBytes string
	storeDefs  map[string]storeDef
	fltOf      map[string]fltInfo
	extraDecls []string
	sortFacts  []sortFact
	mergeDefs  map[string][]string
	leafT      map[string]types.Type
	refComp    map[string]bool
	attached   map[*Clause]bool
	detached   []string
	inlineCon  *Contract
	curPC      string // path condition of the instruction being executed ("" outside instruction execution)
}

type sortFact struct {
	perm, inv string
	slice     SliceV
	stable    bool
	less      Val
	elem      types.Type
}

type storeDef struct{ prev, idx, val string }

// fltInfo: the float value is (an integer term x) times a positive rational constant.
type fltInfo struct {
	x   string
	num *big.Rat
}

// IfaceInfo records the static knowledge about an interface value built by MakeInterface.
type IfaceInfo struct {
	Dyn types.Type
	P   Val
}

func (e *Engine) selectFwd(arr, base, idx string) string {
	return fmt.Sprintf("(select (select %s %s) %s)", arr, base, idx)
}

type modelVar struct {
	Name string
	Term string
}

func newEngine(w *World, unit *ssa.Function) *Engine {
	return &Engine{w: w, unit: unit, decls: map[string]string{}, comps: map[string]string{}, initials: map[string]string{},
		once: map[string]bool{}, unsupp: map[string]int{}, unmod: map[string]int{}, inlined: map[string]int{}, trusted: map[string]int{},
		imprecise: map[string]int{}, strlits: map[string]string{}, tags: map[string]int{}, storeDefs: map[string]storeDef{}, mergeDefs: map[string][]string{}, fltOf: map[string]fltInfo{}, ifaces: map[string]IfaceInfo{}}
}

type retSite struct {
	pc   string
	vals []Val
	heap *Heap
	pos  token.Pos
}

type loopInfo struct {
	header  *ssa.BasicBlock
	ordinal int // ordinal of the for/range statement in source order, 1-based; 0 if unknown
	blocks  map[*ssa.BasicBlock]bool
	mods    map[string]bool
	own     map[string]bool // components the loop body itself stores to
	all     bool
	// per execution
	phiAtHead map[*ssa.Phi]Val
	headHeap  *Heap
	headPC    string
	variant0  []string
}

type frame struct {
	e      *Engine
	fn     *ssa.Function
	vals   map[ssa.Value]Val
	pcs    map[*ssa.BasicBlock]string
	heaps  map[*ssa.BasicBlock]*Heap
	prefix string
	rets   []retSite
	entry  *Heap
	args   []Val
	con    *Contract
	top    bool
	depth  int
	loops  map[*ssa.BasicBlock]*loopInfo
	defers []*ssa.Defer
	tags   []string
	safety []string
	parent *frame
	privAllocs []*ssa.Alloc
	touched      map[string][]string
	touchedTypes map[string]bool
	objFramed    bool
	ghostFramed  bool
	labels       map[string]*Env
	callOrd      map[ssa.Instruction]string
	callCon      *Contract // contract of an inlined function: only its call-site clauses apply
}

func (e *Engine) ob(f *frame, kind, label string, tags []string, pc, cond string, pos token.Pos) {
	if e.quiet {
		return
	}
	if cond == "true" {
		return
	}
	o := &Oblig{Func: funcKey(e.unit), In: funcKey(f.fn), Kind: kind, Label: label, Tags: tags, PC: pc, Cond: cond, Pos: e.w.prog.Fset.Position(pos), nf: len(e.facts)}
	e.obs = append(e.obs, o)
}

// obSyntactic records a site the generator inspected and found in order (decided without a solver).
func (e *Engine) obSyntactic(f *frame, kind, label string, tags []string, pos token.Pos) {
	if e.quiet {
		return
	}
	o := &Oblig{Func: funcKey(e.unit), In: funcKey(f.fn), Kind: kind, Label: label, Tags: tags, PC: "true", Cond: "true", Pos: e.w.prog.Fset.Position(pos), nf: len(e.facts),
		Status: "unsat", Solver: "syntactic"}
	e.obs = append(e.obs, o)
}

// safetyOb emits a no-panic style obligation and then assumes it (execution continues only if it held).
func (f *frame) safetyOb(kind string, pc, cond string, pos token.Pos, node ssa.Instruction) {
	label := f.e.w.srcText(pos, node)
	f.e.ob(f, kind, label, f.safety, pc, cond, pos)
	f.e.assumeIf(pc, cond)
}

func constVal(e *Engine, c *ssa.Const) Val {
	t := c.Type()
	if c.Value == nil {
		return e.zero(t)
	}
	switch c.Value.Kind() {
	case constant.Bool:
		if constant.BoolVal(c.Value) {
			return Sc{"true"}
		}
		return Sc{"false"}
	case constant.Int:
		if sortOf(t) == "Flt" {
			return Sc{e.fresh("fconst", "Flt")}
		}
		s := c.Value.ExactString()
		if strings.HasPrefix(s, "-") {
			return Sc{"(- " + s[1:] + ")"}
		}
		return Sc{s}
	case constant.String:
		return Sc{e.strLit(constant.StringVal(c.Value))}
	case constant.Float:
		return Sc{e.fresh("fconst", "Flt")}
	}
	return Sc{e.fresh("const", "Int")}
}

// strLit returns the constant standing for a string literal, with its length and (short) contents.
func (e *Engine) strLit(s string) string {
	if s == "" {
		return "emptystr"
	}
	if nm, ok := e.strlits[s]; ok {
		return nm
	}
	nm := e.fresh("strlit", "Str")
	e.assume(fmt.Sprintf("(= (slen %s) %d)", nm, len(s)))
	if len(s) <= 24 {
		for i := 0; i < len(s); i++ {
			e.assume(fmt.Sprintf("(= (sat %s %d) %d)", nm, i, s[i]))
		}
	}
	var others []string
	for _, onm := range e.strlits {
		others = append(others, onm)
	}
	sort.Strings(others)
	for _, onm := range others {
		e.assume(fmt.Sprintf("(not (= %s %s))", nm, onm))
	}
	e.strlits[s] = nm
	return nm
}

func (f *frame) get(v ssa.Value) Val {
	e := f.e
	switch c := v.(type) {
	case *ssa.Const:
		return constVal(e, c)
	case *ssa.Global:
		return PtrV{&Loc{Kind: LObj, Ref: e.global("glob."+c.Pkg.Pkg.Name()+"."+c.Name(), "Int"), T: c.Type().(*types.Pointer).Elem()}}
	case *ssa.Function:
		ref := e.global("fn."+c.String(), "Int")
		if !e.once["fn:"+ref] {
			e.once["fn:"+ref] = true
			e.assumeGlobal(fmt.Sprintf("(> %s 0)", ref))
		}
		return ClosV{Fn: c, Ref: ref}
	case *ssa.Builtin:
		return Sc{"1"}
	}
	if x, ok := f.vals[v]; ok {
		return x
	}
	e.unsupp["undefined-value:"+v.Name()+" in "+f.fn.Name()]++
	x := e.havocVal(f.prefix+v.Name(), v.Type())
	f.vals[v] = x
	return x
}

// globalLoad models reading a package-level variable: assumed immutable after initialisation (frame-checked for C13).
func (f *frame) globalLoad(g *ssa.Global) Val {
	e := f.e
	t := g.Type().(*types.Pointer).Elem()
	name := "gv." + g.Pkg.Pkg.Name() + "." + g.Name()
	key := "gv:" + name
	switch under(t).(type) {
	case *types.Slice:
		s := SliceV{e.global(name+".b", "Int"), "0", e.global(name+".l", "Int"), e.global(name+".c", "Int")}
		if !e.once[key] {
			e.once[key] = true
			e.assumeGlobal(e.sliceInv(s))
			e.assumeGlobal(fmt.Sprintf("(<= %s pre)", s.B))
			if g.Pkg.Pkg.Name() == "mcap" && g.Name() == "Magic" {
				e.assumeGlobal(fmt.Sprintf("(and (= %s 8) (= %s 8) (> %s 0))", s.L, s.C, s.B))
			}
			if g.Pkg.Pkg.Name() == "ros" && g.Name() == "BagMagic" {
				e.assumeGlobal(fmt.Sprintf("(and (= %s 13) (>= %s 13) (> %s 0))", s.L, s.C, s.B))
			}
		}
		return s
	case *types.Struct, *types.Array:
		return e.havocVal(name, t)
	}
	so := sortOf(t)
	if so == "" {
		so = "Int"
	}
	v := e.global(name, so)
	if !e.once[key] {
		e.once[key] = true
		if rf := rangeFact(t, v); rf != "" {
			e.assumeGlobal(rf)
		}
		if so == "Int" && !isInt(t) {
			e.assumeGlobal(fmt.Sprintf("(<= %s pre)", v))
			// package-level error values and maps are initialised, never nil
			if isIface(t) || isPtr(t) {
				if strings.HasPrefix(g.Name(), "Err") || g.Name() == "EOF" || strings.HasPrefix(g.Name(), "err") {
					e.assumeGlobal(fmt.Sprintf("(> %s 0)", v))
				}
			}
			if _, isMap := under(t).(*types.Map); isMap {
				e.assumeGlobal(fmt.Sprintf("(> %s 0)", v))
			}
			if !e.w.scope[g.Pkg] {
				// package-level variables of other packages (io.Discard, io.EOF, ...) are initialised
				e.assumeGlobal(fmt.Sprintf("(> %s 0)", v))
			}
		}
		full := g.Pkg.Pkg.Path() + "." + g.Name()
		switch full {
		case "io.EOF":
			e.assumeGlobal(fmt.Sprintf("(and (isEOF %s) (not (isUEOF %s)) (not (isCRC %s)))", v, v, v))
		case "io.ErrUnexpectedEOF":
			e.assumeGlobal(fmt.Sprintf("(and (isUEOF %s) (not (isEOF %s)) (not (isCRC %s)))", v, v, v))
		default:
			if isIface(t) {
				e.assumeGlobal(fmt.Sprintf("(and (not (isUEOF %s)) (not (isEOF %s)) (not (isCRC %s)))", v, v, v))
			}
		}
	}
	if p, ok := under(t).(*types.Pointer); ok {
		return PtrV{&Loc{Kind: LObj, Ref: v, T: p.Elem()}}
	}
	return Sc{v}
}

func isBackEdge(from, to *ssa.BasicBlock) bool { return to.Dominates(from) }

func rpo(fn *ssa.Function) []*ssa.BasicBlock {
	seen := map[*ssa.BasicBlock]bool{}
	var post []*ssa.BasicBlock
	var dfs func(b *ssa.BasicBlock)
	dfs = func(b *ssa.BasicBlock) {
		seen[b] = true
		for _, s := range b.Succs {
			if !seen[s] && !isBackEdge(b, s) {
				dfs(s)
			}
		}
		post = append(post, b)
	}
	dfs(fn.Blocks[0])
	for i, j := 0, len(post)-1; i < j; i, j = i+1, j-1 {
		post[i], post[j] = post[j], post[i]
	}
	return post
}

func edgeCond(f *frame, from, to *ssa.BasicBlock) string {
	last := from.Instrs[len(from.Instrs)-1]
	if iff, ok := last.(*ssa.If); ok {
		c := f.e.scalar(f.get(iff.Cond))
		if from.Succs[0] == to && from.Succs[1] == to {
			return "true"
		}
		if from.Succs[0] == to {
			return c
		}
		return not(c)
	}
	return "true"
}

// findLoops computes natural loops (header -> blocks) and attaches source ordinals.
func (w *World) findLoops(fn *ssa.Function) map[*ssa.BasicBlock]*loopInfo {
	loops := map[*ssa.BasicBlock]*loopInfo{}
	for _, b := range fn.Blocks {
		for _, s := range b.Succs {
			if isBackEdge(b, s) {
				li := loops[s]
				if li == nil {
					li = &loopInfo{header: s, blocks: map[*ssa.BasicBlock]bool{s: true}}
					loops[s] = li
				}
				// blocks that reach b without passing through s
				var stack []*ssa.BasicBlock
				if !li.blocks[b] {
					li.blocks[b] = true
					stack = append(stack, b)
				}
				for len(stack) > 0 {
					x := stack[len(stack)-1]
					stack = stack[:len(stack)-1]
					for _, p := range x.Preds {
						if !li.blocks[p] {
							li.blocks[p] = true
							stack = append(stack, p)
						}
					}
				}
			}
		}
	}
	if len(loops) == 0 {
		return loops
	}
	// source ordinals: smallest for/range statement containing every positioned instruction of the loop
	var stmts []ast.Node
	if syn := fn.Syntax(); syn != nil {
		var body ast.Node
		switch s := syn.(type) {
		case *ast.FuncDecl:
			body = s.Body
		case *ast.FuncLit:
			body = s.Body
		}
		if body != nil {
			ast.Inspect(body, func(n ast.Node) bool {
				switch n.(type) {
				case *ast.FuncLit:
					return n == body
				case *ast.ForStmt, *ast.RangeStmt:
					stmts = append(stmts, n)
				}
				return true
			})
		}
	}
	for _, li := range loops {
		best := -1
		for i, s := range stmts {
			ok := true
			any := false
			for b := range li.blocks {
				for _, ins := range b.Instrs {
					p := ins.Pos()
					if !p.IsValid() {
						continue
					}
					if _, isPhi := ins.(*ssa.Phi); isPhi {
						continue
					}
					any = true
					if p < s.Pos() || p > s.End() {
						ok = false
					}
				}
			}
			if ok && any {
				if best < 0 || (stmts[best].End()-stmts[best].Pos()) > (s.End()-s.Pos()) {
					best = i
				}
			}
		}
		li.ordinal = best + 1
	}
	return loops
}

// exec symbolically executes fn from the given state.
func (e *Engine) exec(fn *ssa.Function, args []Val, binds []Val, pc string, heap *Heap, prefix string, top bool, depth int, con *Contract, tags, safety []string) ([]Val, string, *Heap, *frame) {
	return e.execP(nil, fn, args, binds, pc, heap, prefix, top, depth, con, tags, safety)
}

func (e *Engine) execP(parent *frame, fn *ssa.Function, args []Val, binds []Val, pc string, heap *Heap, prefix string, top bool, depth int, con *Contract, tags, safety []string) ([]Val, string, *Heap, *frame) {
	f := &frame{e: e, fn: fn, vals: map[ssa.Value]Val{}, pcs: map[*ssa.BasicBlock]string{}, heaps: map[*ssa.BasicBlock]*Heap{},
		prefix: prefix, entry: heap.clone(), args: args, con: con, top: top, depth: depth, tags: tags, safety: safety, parent: parent, labels: map[string]*Env{}}
	if con == nil && e.inlineCon != nil {
		f.callCon = e.inlineCon
	}
	e.inlineCon = nil
	for i, p := range fn.Params {
		f.vals[p] = args[i]
	}
	for i, fv := range fn.FreeVars {
		if binds != nil && i < len(binds) {
			f.vals[fv] = binds[i]
		} else {
			v := e.havocVal(prefix+"fv."+fv.Name(), fv.Type())
			if pv, ok := v.(PtrV); ok {
				e.assume(fmt.Sprintf("(and (> %s 0) (<= %s pre))", pv.L.Ref, pv.L.Ref))
			}
			f.vals[fv] = v
		}
	}
	f.loops = e.w.loopsOf(fn)
	for _, li := range f.loops {
		li.phiAtHead = nil
		if li.mods == nil {
			li.mods, li.own, li.all = e.w.loopMods(fn, li)
		}
	}
	order := rpo(fn)
	for _, b := range order {
		var conds []string
		var hs []*Heap
		var preds []*ssa.BasicBlock
		if b == fn.Blocks[0] {
			conds = append(conds, pc)
			hs = append(hs, heap)
			preds = append(preds, nil)
		}
		for _, p := range b.Preds {
			if isBackEdge(p, b) {
				continue
			}
			ppc, ok := f.pcs[p]
			if !ok || ppc == "false" {
				continue
			}
			conds = append(conds, and(ppc, edgeCond(f, p, b)))
			hs = append(hs, f.heaps[p])
			preds = append(preds, p)
		}
		if len(conds) == 0 {
			continue // unreachable
		}
		savedPC := e.curPC
		e.curPC = ""
		bpc := e.define(prefix+fmt.Sprintf("pc.b%d", b.Index), "Bool", or(conds...))
		h := e.mergeHeaps(conds, hs)
		li := f.loops[b]
		if li != nil {
			bpc = f.enterLoop(li, b, bpc, h, preds, conds)
		}
		f.pcs[b] = bpc
		alive := true
		for _, ins := range b.Instrs {
			if !alive {
				break
			}
			e.curPC = bpc
			if li != nil {
				if _, isPhi := ins.(*ssa.Phi); isPhi {
					continue // handled by enterLoop
				}
			}
			alive = f.step(b, ins, bpc, h, preds, conds)
		}
		e.curPC = ""
		f.heaps[b] = h
		if !alive {
			f.pcs[b] = "false"
			e.curPC = savedPC
			continue
		}
		for _, s := range b.Succs {
			if isBackEdge(b, s) {
				f.backEdge(f.loops[s], b, and(bpc, edgeCond(f, b, s)), h)
			}
		}
		e.curPC = savedPC
	}
	if len(f.rets) == 0 {
		return nil, "false", heap, f
	}
	var conds []string
	var hs []*Heap
	for _, r := range f.rets {
		conds = append(conds, r.pc)
		hs = append(hs, r.heap)
	}
	res := fn.Signature.Results()
	var out []Val
	for i := 0; i < res.Len(); i++ {
		var vs []Val
		for _, r := range f.rets {
			vs = append(vs, r.vals[i])
		}
		out = append(out, e.mergeVals(prefix+"ret", res.At(i).Type(), conds, vs))
	}
	return out, e.define(prefix+"pc.ret", "Bool", or(conds...)), e.mergeHeaps(conds, hs), f
}

// ---------- loops ----------

// rangeIndexBound recognises the go/ssa lowering of `for i := range s`:
// header: t1 = phi [-1, t2] #rangeindex; t2 = t1 + 1; t3 = t2 < n; if t3 ...   (n defined outside the loop)
func rangeIndexBound(b *ssa.BasicBlock) (*ssa.Phi, ssa.Value) {
	var phi *ssa.Phi
	for _, ins := range b.Instrs {
		if p, ok := ins.(*ssa.Phi); ok && p.Comment == "rangeindex" {
			phi = p
		}
	}
	if phi == nil {
		return nil, nil
	}
	for _, ins := range b.Instrs {
		if bo, ok := ins.(*ssa.BinOp); ok && bo.Op == token.LSS {
			if add, ok := bo.X.(*ssa.BinOp); ok && add.Op == token.ADD && add.X == phi {
				return phi, bo.Y
			}
		}
	}
	return phi, nil
}

func (f *frame) loopClauses(li *loopInfo, kind string) []*Clause {
	if f.con == nil || li.ordinal == 0 {
		return nil
	}
	var out []*Clause
	for _, c := range f.con.Loops {
		if c.Loop == li.ordinal && c.Kind == kind {
			out = append(out, c)
		}
	}
	return out
}

func (f *frame) enterLoop(li *loopInfo, b *ssa.BasicBlock, pc0 string, h *Heap, preds []*ssa.BasicBlock, conds []string) string {
	e := f.e
	prevCtx := e.specCtx
	e.specCtx = "loop"
	defer func() { e.specCtx = prevCtx }()
	// 1. values of the phis on entry
	entryPhi := map[*ssa.Phi]Val{}
	for _, ins := range b.Instrs {
		in, ok := ins.(*ssa.Phi)
		if !ok {
			continue
		}
		var vs []Val
		var cs []string
		for i, p := range b.Preds {
			for j, q := range preds {
				if q != nil && p == q {
					vs = append(vs, f.get(in.Edges[i]))
					cs = append(cs, conds[j])
				}
			}
		}
		if len(vs) == 0 {
			entryPhi[in] = e.havocVal(f.prefix+in.Name(), in.Type())
		} else {
			entryPhi[in] = e.mergeVals(f.prefix+in.Name()+".in", in.Type(), cs, vs)
		}
	}
	// 2. invariants hold on entry
	invs := f.loopClauses(li, "invariant")
	riPhi, riBound := rangeIndexBound(b)
	for _, c := range invs {
		env := f.specEnv(h, b, entryPhi)
		ts, ls := e.conjuncts(env, c.Expr, "")
		for i := range ts {
			e.ob(f, "inv-init", c.clabel(ls[i]), c.tagsOr(f.tags), pc0, ts[i], f.loopPos(li))
		}
	}
	if riPhi != nil && riBound != nil {
		x := e.scalar(entryPhi[riPhi])
		n := e.scalar(f.get(riBound))
		e.ob(f, "inv-init", "auto:rangeindex", f.safety, pc0, fmt.Sprintf("(and (<= (- 1) %s) (<= %s (- %s 1)) (<= 0 %s))", x, x, n, n), f.loopPos(li))
	}
	// 3. havoc what the loop may change (object-restricted where the contract has a touches clause)
	touched, _ := f.touchedOf()
	f.havocModsT(h, li.mods, li.all, touched, li.own, f.objFramed)
	loopMark := e.bumpWater(f.prefix + "loop") // objects allocated by earlier iterations exist now
	defer func() {
		// whatever the loop variables refer to at the head exists now
		for _, v := range li.phiAtHead {
			switch x := v.(type) {
			case PtrV:
				if x.L.Kind == LObj {
					e.assume(fmt.Sprintf("(<= %s %s)", x.L.Ref, loopMark))
				}
			case SliceV:
				e.assume(fmt.Sprintf("(<= %s %s)", x.B, loopMark))
			}
		}
	}()
	li.phiAtHead = map[*ssa.Phi]Val{}
	for _, ins := range b.Instrs {
		if in, ok := ins.(*ssa.Phi); ok {
			// a phi whose back-edge operands are all the phi itself never changes in the loop
			invariant := true
			for i, p := range b.Preds {
				if isBackEdge(p, b) && in.Edges[i] != ssa.Value(in) {
					invariant = false
				}
			}
			if invariant {
				li.phiAtHead[in] = entryPhi[in]
				f.vals[in] = entryPhi[in]
				continue
			}
			v := e.havocVal(f.prefix+in.Name()+"."+in.Comment, in.Type())
			li.phiAtHead[in] = v
			f.vals[in] = v
		}
	}
	pcL := e.fresh(f.prefix+fmt.Sprintf("pcL.b%d", b.Index), "Bool")
	e.assumeGlobal(imp(pcL, pc0))
	li.headHeap = h.clone()
	li.headPC = pcL
	// 4. assume invariants
	for _, c := range invs {
		env := f.specEnv(h, b, li.phiAtHead)
		e.assumeIf(pcL, e.evalBool(env, c.Expr))
	}
	if riPhi != nil && riBound != nil {
		x := e.scalar(li.phiAtHead[riPhi])
		n := e.scalar(f.get(riBound))
		e.assumeIf(pcL, fmt.Sprintf("(and (<= (- 1) %s) (<= %s (- %s 1)))", x, x, n))
	}
	li.variant0 = nil
	for _, c := range f.loopClauses(li, "decreases") {
		env := f.specEnv(h, b, li.phiAtHead)
		v, _ := e.eval(env, c.Expr)
		li.variant0 = append(li.variant0, e.define(f.prefix+"variant0", "Int", e.scalar(v)))
	}
	return pcL
}

func (f *frame) loopPos(li *loopInfo) token.Pos {
	for _, ins := range li.header.Instrs {
		if ins.Pos().IsValid() {
			return ins.Pos()
		}
	}
	for b := range li.blocks {
		for _, ins := range b.Instrs {
			if ins.Pos().IsValid() {
				return ins.Pos()
			}
		}
	}
	return f.fn.Pos()
}

func (f *frame) backEdge(li *loopInfo, from *ssa.BasicBlock, pc string, h *Heap) {
	e := f.e
	prevCtx := e.specCtx
	e.specCtx = "loop"
	defer func() { e.specCtx = prevCtx }()
	if li == nil || li.phiAtHead == nil {
		return
	}
	b := li.header
	next := map[*ssa.Phi]Val{}
	for _, ins := range b.Instrs {
		if in, ok := ins.(*ssa.Phi); ok {
			for i, p := range b.Preds {
				if p == from {
					next[in] = f.get(in.Edges[i])
				}
			}
		}
	}
	for _, c := range f.loopClauses(li, "invariant") {
		env := f.specEnv(h, b, next)
		ts, ls := e.conjuncts(env, c.Expr, "")
		for i := range ts {
			e.ob(f, "inv-keep", c.clabel(ls[i]), c.tagsOr(f.tags), pc, ts[i], f.loopPos(li))
		}
	}
	if bes := f.loopClauses(li, "backedge"); len(bes) > 0 {
		// conditions that must hold whenever the loop goes round again (e.g. "a skipped message was not selected")
		env := f.specEnv(h, nil, nil)
		f.bindLocalsI(env, from, nil, true, li.blocks)
		// a loop-carried variable has, when the loop goes round from this block, exactly the value its header phi receives
		// along this edge (the "latest block wins" resolution above may pick an assignment of a path not taken)
		for ph, v := range next {
			if ph.Comment != "" {
				env.vars[ph.Comment] = TV{v, ph.Type()}
				delete(env.cells, ph.Comment)
			}
		}
		if os.Getenv("GOVC_DEBUG_ENV") != "" {
			var ks []string
			for k := range env.vars {
				ks = append(ks, k)
			}
			sort.Strings(ks)
			fmt.Fprintf(os.Stderr, "backedge env from b%d: %v (loop blocks %d)\n", from.Index, ks, len(li.blocks))
		}
		head := f.specEnv(li.headHeap, b, li.phiAtHead)
		env.headEnv = head
		for _, c := range bes {
			ts, ls := e.conjuncts(env, c.Expr, "")
			for i := range ts {
				e.ob(f, "backedge", c.clabel(ls[i]), c.tagsOr(f.tags), pc, ts[i], f.loopPos(li))
			}
		}
	}
	f.frameObs("frame-keep", pc, li.headHeap, h, f.loopPos(li))
	riPhi, riBound := rangeIndexBound(b)
	if riPhi != nil && riBound != nil {
		x := e.scalar(next[riPhi])
		n := e.scalar(f.get(riBound))
		e.ob(f, "inv-keep", "auto:rangeindex", f.safety, pc, fmt.Sprintf("(and (<= (- 1) %s) (<= %s (- %s 1)))", x, x, n), f.loopPos(li))
	}
	for i, c := range f.loopClauses(li, "decreases") {
		if i >= len(li.variant0) {
			break
		}
		env := f.specEnv(h, b, next)
		v, _ := e.eval(env, c.Expr)
		e.ob(f, "term", c.label(), c.tagsOr(f.safety), pc, fmt.Sprintf("(and (< %s %s) (>= %s 0))", e.scalar(v), li.variant0[i], li.variant0[i]), f.loopPos(li))
	}
}

func (e *Engine) havocAll(h *Heap) {
	var ks []string
	for k := range e.comps {
		ks = append(ks, k)
	}
	sort.Strings(ks)
	for _, k := range ks {
		e.havocComp(h, k)
	}
	h.pendAll()
}

// havocHeapComp havocs a component (or, for a pattern ending in *, every component with that prefix).
func (e *Engine) havocHeapComp(h *Heap, k string) {
	if strings.HasSuffix(k, "*") {
		p := strings.TrimSuffix(k, "*")
		var ks []string
		for c := range e.comps {
			if strings.HasPrefix(c, p) {
				ks = append(ks, c)
			}
		}
		sort.Strings(ks)
		for _, c := range ks {
			e.havocComp(h, c)
		}
		h.pend(k)
		return
	}
	if _, ok := e.comps[k]; ok {
		e.havocComp(h, k)
	} else {
		h.pend(k)
	}
}

// ---------- instructions ----------

func (f *frame) nonNil(l *Loc, pc string, pos token.Pos, ins ssa.Instruction) {
	if l.Kind != LObj {
		return
	}
	if strings.HasPrefix(l.Ref, "|glob.") || strings.HasPrefix(l.Ref, "(sub ") || strings.HasPrefix(l.Ref, "|alloc") {
		return
	}
	f.safetyOb("nopanic:nil", pc, fmt.Sprintf("(not (= %s 0))", l.Ref), pos, ins)
}

func (f *frame) name(v ssa.Value) string { return f.prefix + v.Name() }

func (f *frame) step(b *ssa.BasicBlock, ins ssa.Instruction, pc string, h *Heap, preds []*ssa.BasicBlock, conds []string) bool {
	e := f.e
	switch in := ins.(type) {
	case *ssa.DebugRef:
	case *ssa.Phi:
		var vs []Val
		var cs []string
		for i, p := range b.Preds {
			for j, q := range preds {
				if q != nil && p == q {
					vs = append(vs, f.get(in.Edges[i]))
					cs = append(cs, conds[j])
				}
			}
		}
		if len(vs) == 0 {
			f.vals[in] = e.havocVal(f.name(in), in.Type())
		} else {
			f.vals[in] = e.mergeVals(f.name(in), in.Type(), cs, vs)
		}
	case *ssa.Alloc:
		r := e.newRef(f.name(in) + "." + in.Comment)
		l := &Loc{Kind: LObj, Ref: r, T: in.Type().(*types.Pointer).Elem()}
		if tn := types.TypeString(l.T, nil); tn == "strings.Builder" || tn == "bytes.Buffer" {
			arr := e.comp(h, "G.sb_len", "Int", false)
			e.setGhost(h, "sb_len", arr, r, "0") // a new builder is empty
		}
		if _, isArr := under(l.T).(*types.Array); !isArr {
			e.store(h, l, e.zero(l.T))
		} else {
			// arrays: contents addressed as elements of base r; zero-initialised
			at := under(l.T).(*types.Array)
			if so := sortOf(at.Elem()); so != "" {
				name := "E." + tname(at.Elem())
				arr := e.comp(h, name, so, true)
				zero := e.scalar(e.zero(at.Elem()))
				e.setComp(h, name, fmt.Sprintf("(store %s %s ((as const (Array Int %s)) %s))", arr, r, so, zero))
			}
		}
		f.vals[in] = PtrV{l}
	case *ssa.FieldAddr:
		p, ok := f.get(in.X).(PtrV)
		if !ok {
			e.unsupp["fieldaddr-nonptr"]++
			f.vals[in] = e.havocVal(f.name(in), in.Type())
			break
		}
		f.nonNil(p.L, pc, in.Pos(), in)
		f.vals[in] = PtrV{e.fieldLoc(p.L, in.Field)}
	case *ssa.Field:
		sv, ok := f.get(in.X).(StructV)
		if ok {
			f.vals[in] = sv.F[in.Field]
		} else {
			f.vals[in] = e.havocVal(f.name(in), in.Type())
		}
	case *ssa.IndexAddr:
		idx := e.scalar(f.get(in.Index))
		switch x := f.get(in.X).(type) {
		case SliceV:
			f.safetyOb("nopanic:index", pc, fmt.Sprintf("(and (<= 0 %s) (< %s %s))", idx, idx, x.L), in.Pos(), in)
			et := under(in.X.Type()).(*types.Slice).Elem()
			f.vals[in] = PtrV{&Loc{Kind: LElem, Base: x.B, Index: addT(x.O, idx), T: et}}
		case PtrV: // pointer to array
			at, ok := under(x.L.T).(*types.Array)
			if !ok {
				e.unsupp["indexaddr-ptr"]++
				f.vals[in] = e.havocVal(f.name(in), in.Type())
				break
			}
			f.nonNil(x.L, pc, in.Pos(), in)
			f.safetyOb("nopanic:index", pc, fmt.Sprintf("(and (<= 0 %s) (< %s %d))", idx, idx, at.Len()), in.Pos(), in)
			f.vals[in] = PtrV{&Loc{Kind: LElem, Base: e.ptrTerm(x), Index: idx, T: at.Elem()}}
		default:
			e.unsupp["indexaddr"]++
			f.vals[in] = e.havocVal(f.name(in), in.Type())
		}
	case *ssa.Index:
		idx := e.scalar(f.get(in.Index))
		if isStr(in.X.Type()) {
			s := e.scalar(f.get(in.X))
			f.safetyOb("nopanic:index", pc, fmt.Sprintf("(and (<= 0 %s) (< %s (slen %s)))", idx, idx, s), in.Pos(), in)
			f.vals[in] = Sc{e.define(f.name(in), "Int", fmt.Sprintf("(sat %s %s)", s, idx))}
			break
		}
		if at, ok := under(in.X.Type()).(*types.Array); ok {
			f.safetyOb("nopanic:index", pc, fmt.Sprintf("(and (<= 0 %s) (< %s %d))", idx, idx, at.Len()), in.Pos(), in)
		}
		f.vals[in] = e.havocVal(f.name(in), in.Type())
	case *ssa.UnOp:
		f.unop(in, pc, h)
	case *ssa.BinOp:
		f.vals[in] = f.binop(in, pc)
	case *ssa.Convert:
		f.vals[in] = f.convert(in, pc, h)
	case *ssa.ChangeType:
		f.vals[in] = f.get(in.X)
	case *ssa.ChangeInterface:
		f.vals[in] = f.get(in.X)
	case *ssa.MakeInterface:
		f.vals[in] = f.makeInterface(in, pc, h)
	case *ssa.Extract:
		tv, ok := f.get(in.Tuple).(TupleV)
		if ok && in.Index < len(tv) {
			f.vals[in] = tv[in.Index]
		} else {
			f.vals[in] = e.havocVal(f.name(in), in.Type())
		}
	case *ssa.Slice:
		f.vals[in] = f.slice(in, pc, h)
	case *ssa.MakeSlice:
		l := e.scalar(f.get(in.Len))
		c := e.scalar(f.get(in.Cap))
		f.safetyOb("nopanic:make", pc, fmt.Sprintf("(and (<= 0 %s) (<= %s %s))", l, l, c), in.Pos(), in)
		es := e.w.sizes.Sizeof(under(in.Type()).(*types.Slice).Elem())
		if es < 1 {
			es = 1
		}
		f.allocOb(pc, fmt.Sprintf("(* %d %s)", es, c), in.Pos(), in)
		r := e.newRef(f.name(in) + ".mk")
		f.zeroElems(h, under(in.Type()).(*types.Slice).Elem(), r)
		f.vals[in] = SliceV{r, "0", l, c}
	case *ssa.MakeMap:
		if in.Reserve != nil {
			// make(map[K]V, hint) allocates buckets for hint entries up front
			mt := under(in.Type()).(*types.Map)
			es := e.w.sizes.Sizeof(mt.Key()) + e.w.sizes.Sizeof(mt.Elem())
			if es < 1 {
				es = 1
			}
			f.allocOb(pc, fmt.Sprintf("(* %d %s)", es, e.scalar(f.get(in.Reserve))), in.Pos(), in)
		}
		r := e.newRef(f.name(in) + ".map")
		f.vals[in] = Sc{r}
		f.mapInit(h, in.Type(), r)
	case *ssa.MakeClosure:
		var binds []Val
		for _, bnd := range in.Bindings {
			binds = append(binds, f.get(bnd))
		}
		f.vals[in] = ClosV{Fn: in.Fn.(*ssa.Function), Binds: binds, Ref: e.newRef(f.name(in) + ".clos")}
	case *ssa.MapUpdate:
		f.mapUpdate(in, pc, h)
	case *ssa.Lookup:
		f.lookup(in, pc, h)
	case *ssa.TypeAssert:
		f.typeAssert(in, pc)
	case *ssa.Range:
		f.vals[in] = Sc{e.scalar(f.get(in.X))}
		if mt, isMap := under(in.X.Type()).(*types.Map); isMap {
			// a new iteration: nothing delivered yet (ghost visited set of the map, see next)
			if _, _, _, ks, _, ok := e.mapComps(h, mt); ok && (ks == "Int" || ks == "Str") {
				g := "seen"
				if ks == "Str" {
					g = "seen_s"
				}
				e.setGhost(h, g, e.ghost(h, g), e.scalar(f.get(in.X)), fmt.Sprintf("((as const (Array %s Bool)) false)", ks))
			}
		}
		if isStr(in.X.Type()) {
			e.unsupp["range-string"]++
		}
	case *ssa.Next:
		f.next(in, pc, h)
	case *ssa.Store:
		p, ok := f.get(in.Addr).(PtrV)
		if !ok {
			e.unsupp["store-nonptr"]++
			break
		}
		if g, isG := in.Addr.(*ssa.Global); isG {
			e.ob(f, "frame:global-store", g.Name(), []string{"C13"}, pc, "false", in.Pos())
		}
		f.nonNil(p.L, pc, in.Pos(), in)
		e.store(h, p.L, f.get(in.Val))
	case *ssa.Call:
		return f.call(in, in.Common(), pc, h)
	case *ssa.Defer:
		f.defers = append(f.defers, in)
	case *ssa.RunDefers:
		for i := len(f.defers) - 1; i >= 0; i-- {
			d := f.defers[i]
			if d.Block().Dominates(b) {
				f.call(d, d.Common(), pc, h)
			} else if f.pcs[d.Block()] != "" && reachable(d.Block(), b) {
				e.unsupp["conditional-defer"]++
			}
		}
	case *ssa.Go, *ssa.Send, *ssa.Select, *ssa.MakeChan:
		e.unsupp[fmt.Sprintf("%T", ins)]++
		if v, ok := ins.(ssa.Value); ok {
			f.vals[v] = e.havocVal(f.name(v), v.Type())
		}
	case *ssa.If, *ssa.Jump:
	case *ssa.Return:
		var vs []Val
		for _, r := range in.Results {
			vs = append(vs, f.get(r))
		}
		f.rets = append(f.rets, retSite{pc, vs, h.clone(), in.Pos()})
	case *ssa.Panic:
		f.safetyOb("nopanic:explicit", pc, "false", in.Pos(), in)
		return false
	default:
		e.unsupp[fmt.Sprintf("%T", ins)]++
		if v, ok := ins.(ssa.Value); ok {
			f.vals[v] = e.havocVal(f.name(v), v.Type())
		}
	}
	return true
}

func reachable(from, to *ssa.BasicBlock) bool {
	seen := map[*ssa.BasicBlock]bool{}
	stack := []*ssa.BasicBlock{from}
	for len(stack) > 0 {
		x := stack[len(stack)-1]
		stack = stack[:len(stack)-1]
		if x == to {
			return true
		}
		if seen[x] {
			continue
		}
		seen[x] = true
		stack = append(stack, x.Succs...)
	}
	return false
}

func addT(a, b string) string {
	if a == "0" {
		return b
	}
	if b == "0" {
		return a
	}
	return fmt.Sprintf("(+ %s %s)", a, b)
}

// newRef allocates a reference distinct from every pre-existing and every earlier allocated one.
func (e *Engine) newRef(prefix string) string {
	r := e.fresh("alloc."+prefix, "Int")
	e.assumeGlobal(fmt.Sprintf("(and (> %s %s) (> %s 0) (> %s pre))", r, e.water(), r, r)) // allocation order: consistent on every path
	e.lastAlloc = r
	return r
}

// allocOb bounds an allocation of `bytes` bytes: below the 2 GiB ceiling (C10/C20).
func (f *frame) allocOb(pc, bytes string, pos token.Pos, ins ssa.Instruction) {
	e := f.e
	// allocation ceilings belong to the properties about hostile input and memory (C10, C18, C19, C20)
	relevant := false
	for _, t := range f.safety {
		switch t {
		case "C10", "C18", "C19", "C20", "SEM":
			relevant = true
		}
	}
	if !relevant {
		return
	}
	if e.inputBytes == "" {
		f.safetyOb("alloc", pc, fmt.Sprintf("(< %s 2147483648)", bytes), pos, ins)
		return
	}
	f.safetyOb("alloc", pc, fmt.Sprintf("(or (< %s 2147483648) (<= %s (* 2 %s)))", bytes, bytes, e.inputBytes), pos, ins)
}

// zeroElems makes the elements of a fresh backing array zero.
func (f *frame) zeroElems(h *Heap, et types.Type, base string) {
	e := f.e
	so := sortOf(et)
	if so == "" {
		return // struct elements: left unspecified
	}
	name := "E." + tname(et)
	arr := e.comp(h, name, so, true)
	zero := e.scalar(e.zero(et))
	e.setComp(h, name, fmt.Sprintf("(store %s %s ((as const (Array Int %s)) %s))", arr, base, so, zero))
}

func (f *frame) unop(in *ssa.UnOp, pc string, h *Heap) {
	e := f.e
	switch in.Op {
	case token.MUL:
		if g, ok := in.X.(*ssa.Global); ok {
			f.vals[in] = f.globalLoad(g)
			return
		}
		p, ok := f.get(in.X).(PtrV)
		if !ok {
			e.unsupp["deref-nonptr"]++
			f.vals[in] = e.havocVal(f.name(in), in.Type())
			return
		}
		f.nonNil(p.L, pc, in.Pos(), in)
		f.vals[in] = e.load(h, p.L)
	case token.NOT:
		f.vals[in] = Sc{not(e.scalar(f.get(in.X)))}
	case token.SUB:
		if sortOf(in.Type()) == "Flt" {
			f.vals[in] = e.havocVal(f.name(in), in.Type())
			return
		}
		f.vals[in] = Sc{e.define(f.name(in), "Int", wrapOnce(in.Type(), "(- "+e.scalar(f.get(in.X))+")"))}
	default:
		e.imprecise["unop"+in.Op.String()]++
		f.vals[in] = e.havocVal(f.name(in), in.Type())
	}
}

func constInt(v ssa.Value) (int64, bool) {
	c, ok := v.(*ssa.Const)
	if !ok || c.Value == nil || c.Value.Kind() != constant.Int {
		return 0, false
	}
	x, exact := constant.Int64Val(c.Value)
	return x, exact
}

func pow2(k int64) string { return new(big.Int).Lsh(big.NewInt(1), uint(k)).String() }

func (f *frame) binop(in *ssa.BinOp, pc string) Val {
	e := f.e
	x, y := f.get(in.X), f.get(in.Y)
	xt := in.X.Type()
	nm := f.name(in)
	if sortOf(xt) == "Flt" {
		r := e.havocVal(nm, in.Type())
		if in.Op == token.MUL {
			var fi fltInfo
			var cst *ssa.Const
			if a, ok := e.fltOf[e.scalar(x)]; ok {
				fi = a
				cst, _ = in.Y.(*ssa.Const)
			} else if b, ok := e.fltOf[e.scalar(y)]; ok {
				fi = b
				cst, _ = in.X.(*ssa.Const)
			}
			if cst != nil && cst.Value != nil && fi.num != nil {
				if rat, ok := constant.Val(constant.ToFloat(cst.Value)).(*big.Rat); ok && rat.Sign() > 0 {
					e.fltOf[e.scalar(r)] = fltInfo{x: fi.x, num: new(big.Rat).Mul(fi.num, rat)}
				} else if fl, ok := constant.Val(constant.ToFloat(cst.Value)).(*big.Float); ok && fl.Sign() > 0 {
					rat, _ := fl.Rat(nil)
					if rat != nil {
						e.fltOf[e.scalar(r)] = fltInfo{x: fi.x, num: new(big.Rat).Mul(fi.num, rat)}
					}
				}
			}
		}
		return r
	}
	cmp := func(op string) Val {
		if isStr(xt) {
			e.imprecise["string-order"]++
			return e.havocVal(nm, in.Type())
		}
		return Sc{e.define(nm, "Bool", fmt.Sprintf("(%s %s %s)", op, e.scalar(x), e.scalar(y)))}
	}
	switch in.Op {
	case token.EQL, token.NEQ:
		var t string
		switch xv := x.(type) {
		case SliceV:
			t = fmt.Sprintf("(= %s 0)", xv.B)
		case StructV, TupleV:
			return e.havocVal(nm, in.Type())
		default:
			if _, ys := y.(SliceV); ys {
				t = fmt.Sprintf("(= %s 0)", y.(SliceV).B)
			} else {
				t = fmt.Sprintf("(= %s %s)", e.scalar(x), e.scalar(y))
			}
		}
		if in.Op == token.NEQ {
			t = not(t)
		}
		return Sc{e.define(nm, "Bool", t)}
	case token.LSS:
		return cmp("<")
	case token.LEQ:
		return cmp("<=")
	case token.GTR:
		return cmp(">")
	case token.GEQ:
		return cmp(">=")
	}
	if isBoolT(in.Type()) {
		xs, ys := e.scalar(x), e.scalar(y)
		switch in.Op {
		case token.AND, token.LAND:
			return Sc{and(xs, ys)}
		case token.OR, token.LOR:
			return Sc{or(xs, ys)}
		}
		return e.havocVal(nm, in.Type())
	}
	if isStr(in.Type()) { // concatenation
		r := e.fresh(nm, "Str")
		xs, ys := e.scalar(x), e.scalar(y)
		e.assumePC(fmt.Sprintf("(= (slen %s) (+ (slen %s) (slen %s)))", r, xs, ys))
		e.useStrQ = true
		e.assumeGlobal(fmt.Sprintf("(forall ((i Int)) (! (= (sat %s i) (ite (< i (slen %s)) (sat %s i) (sat %s (- i (slen %s))))) :pattern ((sat %s i))))", r, xs, xs, ys, xs, r))
		return Sc{r}
	}
	xs, ys := e.scalar(x), e.scalar(y)
	ii, _ := intInfoOf(in.Type())
	switch in.Op {
	case token.ADD:
		return Sc{e.define(nm, "Int", wrapOnce(in.Type(), fmt.Sprintf("(+ %s %s)", xs, ys)))}
	case token.SUB:
		return Sc{e.define(nm, "Int", wrapOnce(in.Type(), fmt.Sprintf("(- %s %s)", xs, ys)))}
	case token.MUL:
		if k, ok := constInt(in.Y); ok && k >= 0 {
			return Sc{e.define(nm, "Int", wrapFull(in.Type(), fmt.Sprintf("(* %s %d)", xs, k)))}
		}
		if k, ok := constInt(in.X); ok && k >= 0 {
			return Sc{e.define(nm, "Int", wrapFull(in.Type(), fmt.Sprintf("(* %d %s)", k, ys)))}
		}
		e.imprecise["nonlinear-mul"]++
		return Sc{e.define(nm, "Int", wrapFull(in.Type(), fmt.Sprintf("(* %s %s)", xs, ys)))}
	case token.QUO:
		f.safetyOb("nopanic:div", pc, fmt.Sprintf("(not (= %s 0))", ys), in.Pos(), in)
		var qt string
		if !ii.signed {
			qt = fmt.Sprintf("(div %s %s)", xs, ys)
		} else {
			qt = fmt.Sprintf("(ite (>= %s 0) (ite (> %s 0) (div %s %s) (- (div %s (- %s)))) (ite (> %s 0) (- (div (- %s) %s)) (div (- %s) (- %s))))", xs, ys, xs, ys, xs, ys, ys, xs, ys, xs, ys)
		}
		return Sc{e.define(nm, "Int", wrapOnce(in.Type(), qt))}
	case token.REM:
		f.safetyOb("nopanic:div", pc, fmt.Sprintf("(not (= %s 0))", ys), in.Pos(), in)
		if !ii.signed {
			return Sc{e.define(nm, "Int", fmt.Sprintf("(mod %s %s)", xs, ys))}
		}
		r := e.havocVal(nm, in.Type())
		e.imprecise["signed-rem"]++
		return r
	case token.SHL:
		if k, ok := constInt(in.Y); ok && k >= 0 && k < 64 {
			return Sc{e.define(nm, "Int", wrapFull(in.Type(), fmt.Sprintf("(* %s %s)", xs, pow2(k))))}
		}
	case token.SHR:
		if k, ok := constInt(in.Y); ok && k >= 0 && k < 64 {
			return Sc{e.define(nm, "Int", fmt.Sprintf("(div %s %s)", xs, pow2(k)))}
		}
	case token.AND:
		if k, ok := constInt(in.Y); ok && k > 0 && (k&(k+1)) == 0 && !ii.signed {
			return Sc{e.define(nm, "Int", fmt.Sprintf("(mod %s %d)", xs, k+1))}
		}
	}
	e.imprecise["bitop:"+in.Op.String()]++
	return e.havocVal(nm, in.Type()) // other bit operations: range only
}

func (f *frame) convert(in *ssa.Convert, pc string, h *Heap) Val {
	e := f.e
	nm := f.name(in)
	from, to := in.X.Type(), in.Type()
	x := f.get(in.X)
	fi, fok := intInfoOf(from)
	ti, tok := intInfoOf(to)
	if fok && tok {
		xs := e.scalar(x)
		if fi.signed == ti.signed && fi.bits <= ti.bits {
			return Sc{xs}
		}
		if !fi.signed && ti.signed && fi.bits < ti.bits {
			return Sc{xs}
		}
		if fi.bits == ti.bits || (fi.signed && !ti.signed && fi.bits <= ti.bits) {
			return Sc{e.define(nm, "Int", wrapOnce(to, xs))}
		}
		return Sc{e.define(nm, "Int", wrapFull(to, xs))}
	}
	if isStr(to) {
		if s, ok := x.(SliceV); ok { // string(bytes): copies
			r := e.fresh(nm, "Str")
			e.assumePC(fmt.Sprintf("(= (slen %s) %s)", r, s.L))
			if sortOf(under(from).(*types.Slice).Elem()) == "Int" {
				arr := e.comp(h, "E."+tname(under(from).(*types.Slice).Elem()), "Int", true)
				e.useStrQ = true
				e.assumeGlobal(fmt.Sprintf("(forall ((i Int)) (! (=> (and (<= 0 i) (< i %s)) (= (sat %s i) (select (select %s %s) (+ %s i)))) :pattern ((sat %s i))))", s.L, r, arr, s.B, s.O, r))
			}
			return Sc{r}
		}
		if isStr(from) {
			return x
		}
		return Sc{e.fresh(nm, "Str")} // string(rune)
	}
	if st, ok := under(to).(*types.Slice); ok && isStr(from) { // []byte(s): copies
		r := e.newRef(nm + ".b")
		xs := e.scalar(x)
		l := fmt.Sprintf("(slen %s)", xs)
		if sortOf(st.Elem()) == "Int" {
			name := "E." + tname(st.Elem())
			arr := e.comp(h, name, "Int", true)
			a := e.fresh(nm+".bytes", "(Array Int Int)")
			e.useStrQ = true
			e.assumeGlobal(fmt.Sprintf("(forall ((i Int)) (! (=> (and (<= 0 i) (< i %s)) (= (select %s i) (sat %s i))) :pattern ((select %s i))))", l, a, xs, a))
			e.setComp(h, name, fmt.Sprintf("(store %s %s %s)", arr, r, a))
		}
		return SliceV{r, "0", l, l}
	}
	if sortOf(to) == "Flt" && fok {
		r := e.havocVal(nm, to)
		e.fltOf[e.scalar(r)] = fltInfo{x: e.scalar(x), num: big.NewRat(1, 1)}
		return r
	}
	if sortOf(from) == "Flt" && tok {
		r := e.havocVal(nm, to)
		if fi, ok := e.fltOf[e.scalar(x)]; ok && fi.num.Cmp(big.NewRat(1, 1)) >= 0 {
			// r = int(float64(x) * c), c >= 1, 0 <= x < 2^53: float64(x) is exact and rounding is monotone, so
			// x <= r <= ceil(c) * x  (trusted floating-point fact, listed as imprecise:float-scale)
			k := new(big.Int).Add(new(big.Int).Quo(fi.num.Num(), fi.num.Denom()), big.NewInt(1))
			rs := e.scalar(r)
			e.assume(fmt.Sprintf("(=> (and (<= 0 %s) (< %s 9007199254740992)) (and (<= %s %s) (<= %s (* %s %s))))", fi.x, fi.x, fi.x, rs, rs, k.String(), fi.x))
			e.imprecise["float-scale"]++
			return r
		}
		e.imprecise["float-conversion"]++
		return r
	}
	if sortOf(to) == "Flt" || sortOf(from) == "Flt" {
		e.imprecise["float-conversion"]++
		return e.havocVal(nm, to)
	}
	if isPtr(to) || isPtr(from) { // unsafe.Pointer conversions
		e.unsupp["unsafe-conversion"]++
	}
	return e.havocVal(nm, to)
}

func (f *frame) slice(in *ssa.Slice, pc string, h *Heap) Val {
	e := f.e
	nm := f.name(in)
	x := f.get(in.X)
	opt := func(v ssa.Value, def string) string {
		if v == nil {
			return def
		}
		return e.scalar(f.get(v))
	}
	switch xv := x.(type) {
	case SliceV:
		lo := opt(in.Low, "0")
		hi := opt(in.High, xv.L)
		mx := opt(in.Max, xv.C)
		f.safetyOb("nopanic:slice", pc, fmt.Sprintf("(and (<= 0 %s) (<= %s %s) (<= %s %s) (<= %s %s))", lo, lo, hi, hi, mx, mx, xv.C), in.Pos(), in)
		if lo == "0" {
			return SliceV{xv.B, xv.O, e.define(nm+".l", "Int", hi), e.define(nm+".c", "Int", mx)}
		}
		return SliceV{xv.B, e.define(nm+".o", "Int", addT(xv.O, lo)), e.define(nm+".l", "Int", fmt.Sprintf("(- %s %s)", hi, lo)), e.define(nm+".c", "Int", fmt.Sprintf("(- %s %s)", mx, lo))}
	case PtrV: // *array
		at, ok := under(xv.L.T).(*types.Array)
		if !ok {
			break
		}
		f.nonNil(xv.L, pc, in.Pos(), in)
		n := fmt.Sprint(at.Len())
		lo := opt(in.Low, "0")
		hi := opt(in.High, n)
		f.safetyOb("nopanic:slice", pc, fmt.Sprintf("(and (<= 0 %s) (<= %s %s) (<= %s %s))", lo, lo, hi, hi, n), in.Pos(), in)
		return SliceV{e.ptrTerm(xv), lo, e.define(nm+".l", "Int", fmt.Sprintf("(- %s %s)", hi, lo)), e.define(nm+".c", "Int", fmt.Sprintf("(- %s %s)", n, lo))}
	case Sc:
		if isStr(in.X.Type()) {
			ln := fmt.Sprintf("(slen %s)", xv.T)
			lo := opt(in.Low, "0")
			hi := opt(in.High, ln)
			f.safetyOb("nopanic:slice", pc, fmt.Sprintf("(and (<= 0 %s) (<= %s %s) (<= %s %s))", lo, lo, hi, hi, ln), in.Pos(), in)
			r := e.fresh(nm, "Str")
			e.assumePC(fmt.Sprintf("(= (slen %s) (- %s %s))", r, hi, lo))
			e.useStrQ = true
			e.assumeGlobal(fmt.Sprintf("(forall ((i Int)) (! (=> (and (<= 0 i) (< i (- %s %s))) (= (sat %s i) (sat %s (+ %s i)))) :pattern ((sat %s i))))", hi, lo, r, xv.T, lo, r))
			return Sc{r}
		}
	}
	e.unsupp["slice-of-other"]++
	return e.havocVal(nm, in.Type())
}

// ---------- interfaces ----------

func (e *Engine) tagOf(t types.Type) int {
	k := types.TypeString(t, nil)
	if n, ok := e.tags[k]; ok {
		return n
	}
	n := len(e.tags) + 1
	e.tags[k] = n
	return n
}

func (f *frame) makeInterface(in *ssa.MakeInterface, pc string, h *Heap) Val {
	e := f.e
	xt := in.X.Type()
	x := f.get(in.X)
	tag := e.tagOf(xt)
	var r string
	switch xv := x.(type) {
	case PtrV:
		if xv.L.Kind == LObj {
			r = fmt.Sprintf("(mkiface %d %s)", tag, xv.L.Ref)
			key := "mkiface:" + r
			if !e.once[key] {
				e.once[key] = true
				// the interface value wrapping a pointer is as old as the object pointed to
				e.assumeGlobal(fmt.Sprintf("(and (= (dyntag %s) %d) (= (payload %s) %s) (> %s 0) (= (> %s pre) (> %s pre)))", r, tag, r, xv.L.Ref, r, r, xv.L.Ref))
			}
		}
	}
	if r == "" {
		r = e.fresh(f.name(in)+".iface", "Int")
		e.assume(fmt.Sprintf("(and (= (dyntag %s) %d) (> %s 0))", r, tag, r))
	}
	e.ifaces[r] = IfaceInfo{Dyn: xt, P: x}
	// error classification by dynamic type
	if implementsError(xt) {
		tn := types.TypeString(xt, func(p *types.Package) string { return p.Name() })
		key := "errclass:" + r
		if !e.once[key] {
			e.once[key] = true
			switch tn {
			case "*mcap.ErrTruncatedRecord":
				e.assumeGlobal(fmt.Sprintf("(and (isUEOF %s) (not (isEOF %s)) (not (isCRC %s)))", r, r, r))
			case "*mcap.errInvalidChunkCrc":
				e.assumeGlobal(fmt.Sprintf("(and (isCRC %s) (not (isEOF %s)) (not (isUEOF %s)))", r, r, r))
			case "*mcap.ErrUnexpectedToken":
				// Is() delegates to the wrapped error: classification left open
			default:
				e.assumeGlobal(fmt.Sprintf("(and (not (isCRC %s)) (not (isEOF %s)) (not (isUEOF %s)))", r, r, r))
			}
		}
	}
	return Sc{r}
}

func implementsError(t types.Type) bool {
	ms := types.NewMethodSet(t)
	for i := 0; i < ms.Len(); i++ {
		if ms.At(i).Obj().Name() == "Error" {
			return true
		}
	}
	return false
}

func (f *frame) typeAssert(in *ssa.TypeAssert, pc string) {
	e := f.e
	x := e.scalar(f.get(in.X))
	nm := f.name(in)
	var okT string
	var val Val
	if isIface(in.AssertedType) {
		okb := e.fresh(nm+".ok", "Bool")
		e.assume(fmt.Sprintf("(=> (= %s 0) (not %s))", x, okb))
		// static knowledge: a dynamic type created in this function that has the method set
		okT = okb
		val = Sc{e.define(nm+".v", "Int", fmt.Sprintf("(ite %s %s 0)", okb, x))}
	} else {
		tag := e.tagOf(in.AssertedType)
		okT = e.define(nm+".ok", "Bool", fmt.Sprintf("(and (not (= %s 0)) (= (dyntag %s) %d))", x, x, tag))
		if p, isP := under(in.AssertedType).(*types.Pointer); isP {
			val = PtrV{&Loc{Kind: LObj, Ref: e.define(nm+".v", "Int", fmt.Sprintf("(ite %s (payload %s) 0)", okT, x)), T: p.Elem()}}
		} else {
			val = e.havocVal(nm+".v", in.AssertedType)
		}
	}
	if in.CommaOk {
		f.vals[in] = TupleV{val, Sc{okT}}
		return
	}
	f.safetyOb("nopanic:assert", pc, okT, in.Pos(), in)
	f.vals[in] = val
}

// ---------- maps ----------

func mapSorts(t types.Type) (ks, vs string, ok bool) {
	m := under(t).(*types.Map)
	ks, vs = sortOf(m.Key()), sortOf(m.Elem())
	if ks == "" || vs == "" || ks == "Flt" {
		return "", "", false
	}
	return ks, vs, true
}

func (e *Engine) mapComps(h *Heap, t types.Type) (dom, val, card string, ks, vs string, ok bool) {
	ks, vs, ok = mapSorts(t)
	if !ok {
		return
	}
	n := "M." + tname(t)
	if isRefType(under(t).(*types.Map).Elem()) && ks == "Int" {
		// the values stored in a map at function entry are pre-existing objects
		if e.refComp == nil {
			e.refComp = map[string]bool{}
		}
		e.refComp[n+".val"] = true
	}
	dom = e.compFull(h, n+".dom", fmt.Sprintf("(Array Int (Array %s Bool))", ks))
	val = e.compFull(h, n+".val", fmt.Sprintf("(Array Int (Array %s %s))", ks, vs))
	card = e.compFull(h, n+".card", "(Array Int Int)")
	return
}

func (e *Engine) compFull(h *Heap, name, full string) string {
	if v, ok := h.m[name]; ok {
		return v
	}
	e.comps[name] = full
	var nm string
	if h.pending(name) {
		nm = e.pendSym(h, name, full)
	} else {
		nm = e.initial(name)
	}
	h.m[name] = nm
	return nm
}

func (f *frame) mapInit(h *Heap, t types.Type, r string) {
	e := f.e
	dom, _, card, ks, _, ok := e.mapComps(h, t)
	if !ok {
		e.unsupp["map-type:"+tname(t)]++
		return
	}
	n := "M." + tname(t)
	e.setComp(h, n+".dom", fmt.Sprintf("(store %s %s ((as const (Array %s Bool)) false))", dom, r, ks))
	e.setComp(h, n+".card", fmt.Sprintf("(store %s %s 0)", card, r))
}

func (f *frame) mapUpdate(in *ssa.MapUpdate, pc string, h *Heap) {
	e := f.e
	m := e.scalar(f.get(in.Map))
	f.safetyOb("nopanic:nil", pc, fmt.Sprintf("(not (= %s 0))", m), in.Pos(), in)
	t := in.Map.Type()
	dom, val, card, _, _, ok := e.mapComps(h, t)
	if !ok {
		e.unsupp["map-type:"+tname(t)]++
		return
	}
	k := e.scalar(f.get(in.Key))
	v := e.scalar(f.get(in.Value))
	n := "M." + tname(t)
	e.setComp(h, n+".card", fmt.Sprintf("(store %s %s (+ (select %s %s) (ite (select (select %s %s) %s) 0 1)))", card, m, card, m, dom, m, k))
	e.setComp(h, n+".dom", fmt.Sprintf("(store %s %s (store (select %s %s) %s true))", dom, m, dom, m, k))
	e.setComp(h, n+".val", fmt.Sprintf("(store %s %s (store (select %s %s) %s %s))", val, m, val, m, k, v))
}

func (f *frame) lookup(in *ssa.Lookup, pc string, h *Heap) {
	e := f.e
	nm := f.name(in)
	if isStr(in.X.Type()) {
		idx := e.scalar(f.get(in.Index))
		s := e.scalar(f.get(in.X))
		f.safetyOb("nopanic:index", pc, fmt.Sprintf("(and (<= 0 %s) (< %s (slen %s)))", idx, idx, s), in.Pos(), in)
		f.vals[in] = Sc{e.define(nm, "Int", fmt.Sprintf("(sat %s %s)", s, idx))}
		return
	}
	t := in.X.Type()
	mt := under(t).(*types.Map)
	dom, val, card, _, vs, ok := e.mapComps(h, t)
	if !ok {
		e.unsupp["map-type:"+tname(t)]++
		f.vals[in] = e.havocVal(nm, in.Type())
		return
	}
	m := e.scalar(f.get(in.X))
	k := e.scalar(f.get(in.Index))
	present := e.define(nm+".in", "Bool", fmt.Sprintf("(and (not (= %s 0)) (select (select %s %s) %s))", m, dom, m, k))
	e.assume(fmt.Sprintf("(=> %s (>= (select %s %s) 1))", present, card, m))
	zero := e.scalar(e.zero(mt.Elem()))
	vt := e.define(nm+".v", vs, fmt.Sprintf("(ite %s (select (select %s %s) %s) %s)", present, val, m, k, zero))
	var v Val = Sc{vt}
	if p, isP := under(mt.Elem()).(*types.Pointer); isP {
		v = PtrV{&Loc{Kind: LObj, Ref: vt, T: p.Elem()}}
	} else if rf := rangeFact(mt.Elem(), vt); rf != "" {
		e.assume(rf)
	}
	if in.CommaOk {
		f.vals[in] = TupleV{v, Sc{present}}
	} else {
		f.vals[in] = v
	}
}

// loopChangesMap: the loop the Next instruction belongs to inserts into or deletes from some map of type t.
func (f *frame) loopChangesMap(in *ssa.Next, t types.Type) bool {
	n := "M." + tname(t)
	for _, li := range f.loops {
		if li.blocks[in.Block()] {
			if li.mods[n+".dom"] || li.all {
				return true
			}
		}
	}
	return false
}

func (f *frame) next(in *ssa.Next, pc string, h *Heap) {
	e := f.e
	nm := f.name(in)
	if in.IsString {
		f.vals[in] = e.havocVal(nm, in.Type())
		return
	}
	rng, _ := in.Iter.(*ssa.Range)
	tv := e.havocVal(nm, in.Type()).(TupleV)
	if rng != nil {
		t := rng.X.Type()
		mt := under(t).(*types.Map)
		if dom, val, _, _, _, ok := e.mapComps(h, t); ok {
			m := e.scalar(f.get(rng.X))
			okb := e.scalar(tv[0])
			k := e.scalar(tv[1])
			// go/ssa gives an unused key or value the invalid type: take the ranges from the map type
			if rf := rangeFact(mt.Key(), k); rf != "" {
				e.assume(rf)
			}
			if sc, isSc := tv[2].(Sc); isSc {
				if rf := rangeFact(mt.Elem(), sc.T); rf != "" {
					e.assume(rf)
				}
			}
			e.assume(fmt.Sprintf("(=> %s (and (not (= %s 0)) (select (select %s %s) %s)))", okb, m, dom, m, k))
			// visited set: a delivered key was not delivered before; when the iteration ends every key has been delivered
			// (provided the loop does not insert into or delete from a map of this type, which the frame of the loop shows)
			if _, _, _, ks, _, ok2 := e.mapComps(h, t); ok2 && (ks == "Int" || ks == "Str") && !f.loopChangesMap(in, t) {
				g := "seen"
				if ks == "Str" {
					g = "seen_s"
				}
				arr := e.ghost(h, g)
				cur := fmt.Sprintf("(select %s %s)", arr, m)
				e.assume(fmt.Sprintf("(=> %s (not (select %s %s)))", okb, cur, k))
				e.useQuant = true
				e.n++
				bv := q(fmt.Sprintf("k?%d", e.n))
				e.assume(fmt.Sprintf("(=> (not %s) (forall ((%s %s)) (! (=> (and (not (= %s 0)) (select (select %s %s) %s)) (select %s %s)) :pattern ((select (select %s %s) %s)))))", okb, bv, ks, m, dom, m, bv, cur, bv, dom, m, bv))
				e.setGhost(h, g, arr, m, fmt.Sprintf("(ite %s (store %s %s true) %s)", okb, cur, k, cur))
			}
			if _, isSc := tv[2].(Sc); isSc && sortOf(mt.Elem()) != "" {
				e.assume(fmt.Sprintf("(=> %s (= %s (select (select %s %s) %s)))", okb, e.scalar(tv[2]), val, m, k))
			} else if pv, isP := tv[2].(PtrV); isP {
				e.assume(fmt.Sprintf("(=> %s (= %s (select (select %s %s) %s)))", okb, pv.L.Ref, val, m, k))
			}
		}
	}
	f.vals[in] = tv
}

// srcText returns a short normalised rendering of the source expression at pos (for obligation labels).
func (w *World) srcText(pos token.Pos, ins ssa.Instruction) string {
	if !pos.IsValid() {
		if ins != nil {
			return fmt.Sprintf("%T", ins)
		}
		return "?"
	}
	p := w.prog.Fset.Position(pos)
	src := w.fileLines(p.Filename)
	if p.Line >= 1 && p.Line-1 < len(src) {
		line := src[p.Line-1]
		col := p.Column - 1
		if col > len(line) {
			col = len(line)
		}
		if col < 0 {
			col = 0
		}
		// take the expression text around the position: from the start of the token run to end of line, trimmed
		start := col
		for start > 0 && (isIdentByte(line[start-1]) || line[start-1] == '.' || line[start-1] == ']' || line[start-1] == ')') {
			start--
		}
		s := strings.TrimSpace(line[start:])
		if len(s) > 60 {
			s = s[:60]
		}
		return strings.Join(strings.Fields(s), " ")
	}
	return "?"
}

func isIdentByte(c byte) bool {
	return c == '_' || (c >= '0' && c <= '9') || (c >= 'a' && c <= 'z') || (c >= 'A' && c <= 'Z')
}
