// govc: loading the packages of /repo's working tree, contracts, and per-function verification units.
package main

import (
	"fmt"
	"go/ast"
	"go/printer"
	"go/token"
	"go/types"
	"io"
	"os"
	"path/filepath"
	"sort"
	"strings"
	"sync"

	"golang.org/x/tools/go/packages"
	"golang.org/x/tools/go/ssa"
	"golang.org/x/tools/go/ssa/ssautil"
)

type World struct {
	prog      *ssa.Program
	pkgs      []*packages.Package
	scope     map[*ssa.Package]bool
	funcs     []*ssa.Function
	byKey     map[string][]*ssa.Function // pkgname + " " + funcKey
	contracts map[*types.Package]*ContractSet
	stubs     *ContractSet
	sizes     types.Sizes
	mu        sync.Mutex
	modCache  map[*ssa.Function]*modSet
	implCache map[string][]*ssa.Function
	loopCache map[*ssa.Function]map[*ssa.BasicBlock]*loopInfo
	fileCache map[string][]string
	repo      string
}

func printerFprint(w io.Writer, x ast.Expr) { printer.Fprint(w, token.NewFileSet(), x) }

// load type-checks the given package directories of the repository (workspace mode, build tag verif) and builds SSA.
func load(repo string, dirs []string, stubDir string) (*World, error) {
	w := &World{scope: map[*ssa.Package]bool{}, byKey: map[string][]*ssa.Function{}, contracts: map[*types.Package]*ContractSet{},
		modCache: map[*ssa.Function]*modSet{}, implCache: map[string][]*ssa.Function{}, loopCache: map[*ssa.Function]map[*ssa.BasicBlock]*loopInfo{},
		fileCache: map[string][]string{}, repo: repo, sizes: &types.StdSizes{WordSize: 8, MaxAlign: 8}}
	env := []string{}
	for _, kv := range os.Environ() {
		if strings.HasPrefix(kv, "GOFLAGS=") || strings.HasPrefix(kv, "GOWORK=") {
			continue
		}
		env = append(env, kv)
	}
	env = append(env, "GOFLAGS=", "GOPROXY=off", "GOSUMDB=off", "GOTOOLCHAIN=local")
	var all []*packages.Package
	fset := token.NewFileSet()
	// one load for all directories, so that a package imported by another is the same object as the one named directly
	var patterns []string
	base := repo
	if len(dirs) > 0 && strings.HasPrefix(dirs[0], "go/") {
		base = filepath.Join(repo, "go")
		for _, d := range dirs {
			patterns = append(patterns, "./"+strings.TrimPrefix(d, "go/"))
		}
	} else {
		for _, d := range dirs {
			patterns = append(patterns, "./"+d)
		}
	}
	{
		cfg := &packages.Config{Mode: packages.LoadAllSyntax, Dir: base, Env: env, BuildFlags: []string{"-tags=verif"}, Fset: fset}
		pkgs, err := packages.Load(cfg, patterns...)
		if err != nil {
			return nil, err
		}
		nerr := 0
		packages.Visit(pkgs, nil, func(p *packages.Package) {
			for _, e := range p.Errors {
				fmt.Fprintln(os.Stderr, "load error:", e)
				nerr++
			}
		})
		if nerr > 0 {
			return nil, fmt.Errorf("%d errors loading %v", nerr, dirs)
		}
		all = append(all, pkgs...)
	}
	w.pkgs = all
	prog, spkgs := ssautil.AllPackages(all, ssa.InstantiateGenerics|ssa.GlobalDebug)
	prog.Build()
	w.prog = prog
	for _, sp := range spkgs {
		if sp != nil {
			w.scope[sp] = true
		}
	}
	fns := ssautil.AllFunctions(prog)
	for fn := range fns {
		if fn.Blocks == nil || !w.inScope(fn) {
			continue
		}
		if fn.Synthetic != "" && !strings.Contains(fn.Synthetic, "instance") && !strings.Contains(fn.Synthetic, "instantiation") {
			continue // wrappers, bound methods, package initialisers
		}
		w.funcs = append(w.funcs, fn)
	}
	sort.Slice(w.funcs, func(i, j int) bool { return w.funcs[i].String() < w.funcs[j].String() })
	for _, fn := range w.funcs {
		k := w.pkgOf(fn).Pkg.Name() + " " + funcKey(fn)
		w.byKey[k] = append(w.byKey[k], fn)
	}
	// contracts: verif_contracts*.go in each package directory
	for _, p := range all {
		cs := &ContractSet{byKey: map[string]*Contract{}, specs: map[string]*SpecFunc{}}
		for _, f := range p.GoFiles {
			if strings.HasPrefix(filepath.Base(f), "verif_") {
				cs.loadFile(f)
			}
		}
		w.contracts[p.Types] = cs
	}
	w.stubs = &ContractSet{byKey: map[string]*Contract{}, specs: map[string]*SpecFunc{}}
	if stubDir != "" {
		fs, _ := filepath.Glob(filepath.Join(stubDir, "*.spec"))
		sort.Strings(fs)
		for _, f := range fs {
			w.stubs.loadFile(f)
		}
	}
	return w, nil
}

func (w *World) pkgOf(fn *ssa.Function) *ssa.Package {
	for f := fn; f != nil; f = f.Parent() {
		if f.Pkg != nil {
			return f.Pkg
		}
		if o := f.Origin(); o != nil && o.Pkg != nil {
			return o.Pkg
		}
	}
	return nil
}

func (w *World) inScope(fn *ssa.Function) bool {
	p := w.pkgOf(fn)
	return p != nil && w.scope[p]
}

func (w *World) contractErrors() []string {
	var out []string
	for _, cs := range w.contracts {
		out = append(out, cs.errs...)
	}
	out = append(out, w.stubs.errs...)
	sort.Strings(out)
	return out
}

func (w *World) contractFor(fn *ssa.Function) *Contract {
	if w.inScope(fn) {
		p := w.pkgOf(fn)
		if cs := w.contracts[p.Pkg]; cs != nil {
			return cs.byKey[funcKey(fn)]
		}
		return nil
	}
	return w.stubs.byKey[extKey(fn)]
}

var curSpecPkg *types.Package

func (w *World) specFunc(name string) (*SpecFunc, bool) {
	for _, cs := range w.contracts {
		if sf, ok := cs.specs[name]; ok {
			return sf, true
		}
	}
	sf, ok := w.stubs.specs[name]
	return sf, ok
}

func (w *World) loopsOf(fn *ssa.Function) map[*ssa.BasicBlock]*loopInfo {
	w.mu.Lock()
	defer w.mu.Unlock()
	// loopInfo carries per-execution state, so each execution gets its own copy of the static part
	base, ok := w.loopCache[fn]
	if !ok {
		base = w.findLoops(fn)
		w.loopCache[fn] = base
	}
	out := map[*ssa.BasicBlock]*loopInfo{}
	for k, v := range base {
		c := *v
		out[k] = &c
	}
	return out
}

func (w *World) fileLines(name string) []string {
	w.mu.Lock()
	defer w.mu.Unlock()
	if l, ok := w.fileCache[name]; ok {
		return l
	}
	data, _ := os.ReadFile(name)
	l := strings.Split(string(data), "\n")
	w.fileCache[name] = l
	return l
}

func (w *World) implByKey(name, shape string) []*ssa.Function {
	w.mu.Lock()
	defer w.mu.Unlock()
	key := name + "/" + shape
	if r, ok := w.implCache[key]; ok {
		return r
	}
	var out []*ssa.Function
	for _, fn := range w.funcs {
		if fn.Signature.Recv() == nil || fn.Name() != name || fn.Blocks == nil {
			continue
		}
		if sigShape(fn.Signature) != shape {
			continue
		}
		out = append(out, fn)
	}
	w.implCache[key] = out
	return out
}

// ---------- verification of one function ----------

type UnitResult struct {
	Fn        *ssa.Function
	Key       string
	Pkg       string
	Obs       []*Oblig
	Unsupp    map[string]int
	Unmod     map[string]int
	Inlined   map[string]int
	Trusted   map[string]int
	Imprecise map[string]int
	SpecErrs  []string
	Stale     []string // loop/call clauses that name a local the code no longer has
	Detached  []string
	RetPC     string // path condition of reaching a return (for the vacuity guard)
	Vacuous   string // non-empty: the assumptions at the return are contradictory (solver name)
	RetSites  []RetSite // every return statement of the function with its path condition (cover checks)
	DeadRets  []string  // return statements whose path condition is unsatisfiable under the collected facts
	HasCon    bool
	Seconds   float64
	engine    *Engine
}

// RetSite is one return statement of a verified function.
type RetSite struct {
	PC    string
	Where string
}

// verifyUnit generates the obligations of fn (contract if any, otherwise the implicit safety contract).
func (w *World) verifyUnit(fn *ssa.Function, defaultSafety []string) *UnitResult {
	e := newEngine(w, fn)
	con := w.contractFor(fn)
	tags := defaultSafety
	safety := defaultSafety
	if con != nil {
		con.used = true
		if len(con.Tags) > 0 {
			tags = con.Tags
		}
		if len(con.Safety) > 0 {
			safety = con.Safety
		}
	}
	h := newHeap()
	var args []Val
	var inputs []string
	for _, prm := range fn.Params {
		av := e.havocVal("arg."+prm.Name(), prm.Type())
		switch v := av.(type) {
		case PtrV:
			e.assume(fmt.Sprintf("(<= %s pre)", v.L.Ref))
			if con == nil {
				e.assume(fmt.Sprintf("(> %s 0)", v.L.Ref))
			}
		case SliceV:
			e.assume(fmt.Sprintf("(<= %s pre)", v.B))
			es := w.sizes.Sizeof(under(prm.Type()).(*types.Slice).Elem())
			if es < 1 {
				es = 1
			}
			inputs = append(inputs, fmt.Sprintf("(* %d %s)", es, v.L))
		case Sc:
			if sortOf(prm.Type()) == "Int" && !isInt(prm.Type()) {
				e.assume(fmt.Sprintf("(<= %s pre)", v.T))
				if con == nil {
					// implicit contract of an uncontracted function: interface and function parameters are non-nil
					switch under(prm.Type()).(type) {
					case *types.Interface, *types.Signature:
						e.assume(fmt.Sprintf("(> %s 0)", v.T))
					}
				}
			}
			if isStr(prm.Type()) {
				inputs = append(inputs, fmt.Sprintf("(slen %s)", v.T))
			}
		}
		args = append(args, av)
		e.modelVars = append(e.modelVars, modelVarsOf(prm.Name(), av)...)
	}
	if len(inputs) > 0 {
		e.inputBytes = "(+ 0 " + strings.Join(inputs, " ") + ")"
	}
	// frame for evaluating requires before execution
	f0 := &frame{e: e, fn: fn, vals: map[ssa.Value]Val{}, pcs: map[*ssa.BasicBlock]string{}, entry: h, args: args, con: con, tags: tags, safety: safety}
	for i, p := range fn.Params {
		f0.vals[p] = args[i]
	}
	var binds []Val
	for _, fv := range fn.FreeVars {
		v := e.havocVal("fv."+fv.Name(), fv.Type())
		if pv, ok := v.(PtrV); ok {
			e.assume(fmt.Sprintf("(and (> %s 0) (<= %s pre))", pv.L.Ref, pv.L.Ref))
		}
		f0.vals[fv] = v
		binds = append(binds, v)
	}
	if con != nil {
		env := f0.specEnv(h, nil, nil)
		for _, c := range con.Requires {
			e.assume(e.evalBool(env, c.Expr))
		}
	}
	rets, rpc, rh, fr := e.exec(fn, args, binds, "true", h, "", true, 0, con, tags, safety)
	if con != nil && rpc != "false" {
		env := fr.specEnv(rh, nil, nil)
		env.old = fr.entry
		fr.bindAllocs(env)
		resultEnv(env, fn.Signature, rets)
		for _, gd := range con.GhostDefs {
			// the object is new (the condition demands it): its ghost mark is defined here, before anyone can observe it
			obj, _ := e.eval(env, gd.Obj)
			key := e.scalar(obj)
			cond := e.evalBool(env, gd.Cond)
			val, _ := e.eval(env, gd.Value)
			arr := e.ghost(rh, gd.Name)
			e.setGhost(rh, gd.Name, arr, key, fmt.Sprintf("(ite %s %s (select %s %s))", cond, e.scalar(val), arr, key))
		}
		for _, c := range con.Ensures {
			ts, ls := e.conjuncts(env, c.Expr, "")
			for i := range ts {
				n0 := len(e.obs)
				e.ob(fr, "post", c.clabel(ls[i]), c.tagsOr(tags), rpc, ts[i], fn.Pos())
				if len(e.obs) > n0 {
					e.obs[len(e.obs)-1].clause = c
				}
			}
		}
	}
	if containsStr(defaultSafety, "C15") {
		fr.readDisciplineObs()
	}
	if containsStr(defaultSafety, "C13") {
		fr.determinismObs() // frame obligations need no contract: they are generated for whatever is checked under C13
	}
	if con != nil && (len(con.Touches) > 0 || len(con.WritesTo) > 0) && rpc != "false" {
		// frame: of the struct types of the touched objects, only those objects changed (among pre-existing ones)
		fr.frameObs("frame", rpc, fr.entry, rh, fn.Pos())
	}
	if con != nil {
		for _, c := range con.Calls {
			if !e.attached[c] {
				e.detached = append(e.detached, fmt.Sprintf("call clause %s#%d %s of %s attaches to no call", c.CallName, c.CallOrd, strings.TrimPrefix(c.Kind, "call-"), funcKey(fn)))
			}
		}
	}
	var sites []RetSite
	for _, r := range fr.rets {
		if r.pc == "false" {
			continue
		}
		p := w.prog.Fset.Position(r.pos)
		sites = append(sites, RetSite{PC: r.pc, Where: fmt.Sprintf("%s:%d", filepath.Base(p.Filename), p.Line)})
	}
	res := &UnitResult{Fn: fn, Key: funcKey(fn), RetSites: sites, Pkg: w.pkgOf(fn).Pkg.Name(), Detached: e.detached, RetPC: rpc, Obs: e.obs, Unsupp: e.unsupp, Unmod: e.unmod, Inlined: e.inlined,
		Trusted: e.trusted, Imprecise: e.imprecise, SpecErrs: e.specErrs, Stale: e.stale, HasCon: con != nil, engine: e}
	// stable obligation names
	seen := map[string]int{}
	for _, o := range e.obs {
		base := fmt.Sprintf("%s/%s/%s/%s", res.Pkg, strings.TrimPrefix(o.Func, "func "), o.Kind, o.Label)
		if o.In != o.Func {
			base = fmt.Sprintf("%s/%s/%s/[%s] %s", res.Pkg, strings.TrimPrefix(o.Func, "func "), o.Kind, strings.TrimPrefix(o.In, "func "), o.Label)
		}
		seen[base]++
		if seen[base] > 1 {
			o.name = fmt.Sprintf("%s #%d", base, seen[base])
		} else {
			o.name = base
		}
	}
	return res
}

func modelVarsOf(name string, v Val) []modelVar {
	switch x := v.(type) {
	case Sc:
		return []modelVar{{name, x.T}}
	case SliceV:
		return []modelVar{{name + ".base", x.B}, {name + ".off", x.O}, {name + ".len", x.L}, {name + ".cap", x.C}}
	case PtrV:
		if x.L.Kind == LObj {
			return []modelVar{{name, x.L.Ref}}
		}
	}
	return nil
}

func containsStr(xs []string, x string) bool {
	for _, y := range xs {
		if y == x {
			return true
		}
	}
	return false
}

// methodOf finds the method named name in the method set of T (nil if there is none).
func (w *World) methodOf(T types.Type, name string) *ssa.Function {
	ms := w.prog.MethodSets.MethodSet(T)
	for i := 0; i < ms.Len(); i++ {
		if sel := ms.At(i); sel.Obj().Name() == name {
			return w.prog.MethodValue(sel)
		}
	}
	return nil
}
