// govc: calls — builtins, modular application of contracts, inlining of leaf helpers, interface invokes,
// natively modelled library functions, and the inference of what a call may modify.
package main

import (
	"fmt"
	"go/token"
	"go/types"
	"regexp"
	"sort"
	"strings"

	"golang.org/x/tools/go/ssa"
)

const inlineMaxInstrs = 70
const inlineMaxDepth = 3

func (f *frame) setResult(in ssa.Instruction, v Val) {
	if val, ok := in.(ssa.Value); ok {
		f.vals[val] = v
	}
}

func (f *frame) call(in ssa.Instruction, c *ssa.CallCommon, pc string, h *Heap) bool {
	var args []Val
	for _, a := range c.Args {
		args = append(args, f.get(a))
	}
	var resT types.Type
	if v, ok := in.(ssa.Value); ok {
		resT = v.Type()
	}
	nm := f.prefix + "call"
	if v, ok := in.(ssa.Value); ok {
		nm = f.name(v)
	}
	if b, ok := c.Value.(*ssa.Builtin); ok {
		f.builtin(in, b, c, args, pc, h, nm, resT)
		return true
	}
	f.callSiteClauses(in, c, args, pc, h)
	if c.IsInvoke() {
		recv := f.get(c.Value)
		return f.invoke(in, c, recv, args, pc, h, nm, resT)
	}
	callee := c.StaticCallee()
	var binds []Val
	if callee == nil {
		// a closure value created in this function?
		if cv, ok := f.get(c.Value).(ClosV); ok && cv.Fn != nil {
			callee = cv.Fn.(*ssa.Function)
			binds = cv.Binds
		}
	} else if mc, ok := c.Value.(*ssa.MakeClosure); ok {
		for _, b := range mc.Bindings {
			binds = append(binds, f.get(b))
		}
	}
	if callee == nil {
		return f.dynamicCall(in, c, args, pc, h, nm, resT)
	}
	return f.staticCall(in, callee, args, binds, pc, h, nm, resT, in.Pos())
}

// callSiteName: the short name call-site clauses use for the callee of a call instruction.
func callSiteName(c *ssa.CallCommon) string {
	if c.IsInvoke() {
		return c.Method.Name()
	}
	if callee := c.StaticCallee(); callee != nil {
		if o := callee.Origin(); o != nil {
			return o.Name() // an instantiated generic is named like its declaration
		}
		return callee.Name()
	}
	if mc, ok := c.Value.(*ssa.MakeClosure); ok {
		return mc.Fn.Name()
	}
	return c.Value.Name()
}

// callKeyOf numbers the calls of the function by callee name in source order ("Write#2" is the second call of a
// function or method named Write).
func (f *frame) callKeyOf(in ssa.Instruction) string {
	if f.callOrd == nil {
		f.callOrd = map[ssa.Instruction]string{}
		type site struct {
			in   ssa.Instruction
			name string
			pos  token.Pos
			seq  int
		}
		var sites []site
		n := 0
		for _, b := range f.fn.Blocks {
			for _, ins := range b.Instrs {
				ci, ok := ins.(ssa.CallInstruction)
				if !ok {
					continue
				}
				if _, isB := ci.Common().Value.(*ssa.Builtin); isB {
					continue
				}
				n++
				sites = append(sites, site{ins, callSiteName(ci.Common()), ins.Pos(), n})
			}
		}
		sort.SliceStable(sites, func(i, j int) bool {
			if sites[i].pos != sites[j].pos {
				return sites[i].pos < sites[j].pos
			}
			return sites[i].seq < sites[j].seq
		})
		cnt := map[string]int{}
		for _, s := range sites {
			cnt[s.name]++
			f.callOrd[s.in] = fmt.Sprintf("%s#%d", s.name, cnt[s.name])
		}
	}
	return f.callOrd[in]
}

func (f *frame) callClauses(in ssa.Instruction, kind string) []*Clause {
	con := f.con
	if con == nil {
		con = f.callCon
	}
	if con == nil || len(con.Calls) == 0 {
		return nil
	}
	key := f.callKeyOf(in)
	var out []*Clause
	for _, c := range con.Calls {
		if c.Kind == kind && fmt.Sprintf("%s#%d", c.CallName, c.CallOrd) == key {
			out = append(out, c)
			if f.e.attached == nil {
				f.e.attached = map[*Clause]bool{}
			}
			f.e.attached[c] = true
		}
	}
	return out
}

// callEnv: the specification environment just before a call: parameters, source-level locals, and the actual
// arguments as arg0, arg1, ... (recv for the receiver of an interface call).
func (f *frame) callEnv(in ssa.Instruction, c *ssa.CallCommon, args []Val, h *Heap) *Env {
	env := f.specEnv(h, nil, nil)
	f.bindLocalsI(env, in.Block(), nil, true, nil)
	env.old = f.entry
	shift := 0
	if !c.IsInvoke() && c.Signature() != nil && c.Signature().Recv() != nil && len(args) > 0 {
		// a statically dispatched method call: the receiver is the first operand
		env.vars["recv"] = TV{args[0], c.Args[0].Type()}
		shift = 1
	}
	for i, a := range args {
		if i >= shift && i < len(c.Args) {
			env.vars[fmt.Sprintf("arg%d", i-shift)] = TV{a, c.Args[i].Type()}
		}
	}
	if c.IsInvoke() {
		env.vars["recv"] = TV{f.get(c.Value), c.Value.Type()}
	}
	// athead(e): the state at the head of the innermost enclosing loop iteration
	var inner *loopInfo
	for _, li := range f.loops {
		// the loop whose head was passed most recently on the way here (exit paths of an iteration included)
		if li.header.Dominates(in.Block()) && li.headHeap != nil && li.phiAtHead != nil {
			if inner == nil || inner.header.Dominates(li.header) {
				inner = li
			}
		}
	}
	if inner != nil {
		env.headEnv = f.specEnv(inner.headHeap, inner.header, inner.phiAtHead)
	}
	return env
}

// callSiteClauses evaluates the `call Name#k assert ...` and `call Name#k label L` clauses attached to this call.
func (f *frame) callSiteClauses(in ssa.Instruction, c *ssa.CallCommon, args []Val, pc string, h *Heap) {
	e := f.e
	prevCtx := e.specCtx
	e.specCtx = "call"
	defer func() { e.specCtx = prevCtx }()
	if (f.con == nil || len(f.con.Calls) == 0) && (f.callCon == nil || len(f.callCon.Calls) == 0) {
		return
	}
	for _, cl := range f.callClauses(in, "call-label") {
		env := f.callEnv(in, c, args, h.clone())
		if f.labels == nil {
			f.labels = map[string]*Env{}
		}
		f.labels[cl.Label] = env
	}
	for _, cl := range f.callClauses(in, "call-assert") {
		env := f.callEnv(in, c, args, h)
		ts, ls := e.conjuncts(env, cl.Expr, "")
		for i := range ts {
			e.ob(f, "assert", f.callKeyOf(in)+": "+cl.clabel(ls[i]), cl.tagsOr(f.tags), pc, ts[i], in.Pos())
		}
	}
}

func (f *frame) staticCall(in ssa.Instruction, callee *ssa.Function, args, binds []Val, pc string, h *Heap, nm string, resT types.Type, pos token.Pos) bool {
	e := f.e
	w := e.w
	if nat, ok := natives[calleeName(callee)]; ok {
		e.trusted[calleeName(callee)]++
		saved := e.condAssume
		e.condAssume = true
		ok := nat(f, in, callee, args, pc, h, nm, resT)
		e.condAssume = saved
		return ok
	}
	if isExitFunc(callee) {
		f.safetyOb("noexit", pc, "false", pos, in)
		return false
	}
	con := w.contractFor(callee)
	inScope := w.inScope(callee)
	if con != nil && !(con.Inline && inScope) {
		f.applyContract(in, callee, con, args, binds, pc, h, nm, resT, pos)
		return true
	}
	if inScope && callee.Blocks != nil {
		if f.depth < inlineMaxDepth && w.inlinable(callee) && !f.onStack(callee) {
			e.inlined[funcKey(callee)]++
			e.inlineCon = con // call-site clauses of an inlined function are checked in every caller's context
			rets, rpc, rh, _ := e.execP(f, callee, args, binds, pc, h.clone(), nm+"/", false, f.depth+1, nil, f.tags, f.safety)
			*h = *rh
			if rpc == "false" {
				return false
			}
			e.assumeIf(pc, rpc) // execution continues only if the callee returned
			switch len(rets) {
			case 0:
			case 1:
				f.setResult(in, rets[0])
			default:
				f.setResult(in, TupleV(rets))
			}
			return true
		}
		// in-package callee without contract, not inlinable: implicit contract (non-nil pointer params), havoc what it may modify
		e.unmod[funcKey(callee)]++
		for i, p := range callee.Params {
			if i >= len(args) {
				break
			}
			switch under(p.Type()).(type) {
			case *types.Pointer:
				if pv, ok := args[i].(PtrV); ok && pv.L.Kind == LObj && !strings.HasPrefix(pv.L.Ref, "|alloc") && !strings.HasPrefix(pv.L.Ref, "(sub ") {
					e.ob(f, "pre", "implicit:"+funcKey(callee)+":"+p.Name()+"!=nil", f.safety, pc, fmt.Sprintf("(not (= %s 0))", pv.L.Ref), pos)
				}
			case *types.Interface, *types.Signature:
				t := e.scalar(args[i])
				if !strings.HasPrefix(t, "|alloc") && !strings.HasPrefix(t, "(mkiface") {
					e.ob(f, "pre", "implicit:"+funcKey(callee)+":"+p.Name()+"!=nil", f.safety, pc, fmt.Sprintf("(not (= %s 0))", t), pos)
				}
			}
		}
		mods, all := w.modsOf(callee)
		f.havocMods(h, mods, all)
		if resT != nil {
			f.setResult(in, f.resultVal(nm, resT))
		}
		return true
	}
	// external function without model
	e.unmod[calleeName(callee)]++
	f.havocMods(h, nil, !pureExternal(calleeName(callee)))
	if resT != nil {
		f.setResult(in, f.resultVal(nm, resT))
	}
	return true
}

func (f *frame) onStack(fn *ssa.Function) bool {
	return f.fn == fn || strings.Contains(f.prefix, "/"+fn.Name()+"/")
}

// resultVal is an unconstrained call result. Pointers returned by unknown code are not assumed non-nil.
// The callee may have allocated: the watermark moves, and whatever it returns exists now.
func (f *frame) resultVal(nm string, t types.Type) Val {
	e := f.e
	v := e.havocVal(nm, t)
	m := e.bumpWater(nm)
	var bound func(v Val, t types.Type)
	bound = func(v Val, t types.Type) {
		switch x := v.(type) {
		case PtrV:
			if x.L.Kind == LObj {
				e.assume(fmt.Sprintf("(<= %s %s)", x.L.Ref, m))
			}
		case SliceV:
			e.assume(fmt.Sprintf("(<= %s %s)", x.B, m))
		case Sc:
			if sortOf(t) == "Int" && !isInt(t) {
				e.assume(fmt.Sprintf("(<= %s %s)", x.T, m))
			}
		case TupleV:
			if tt, ok := t.(*types.Tuple); ok {
				for i, y := range x {
					bound(y, tt.At(i).Type())
				}
			}
		case StructV:
			if st, ok := under(t).(*types.Struct); ok {
				for i, y := range x.F {
					bound(y, st.Field(i).Type())
				}
			}
		}
	}
	bound(v, t)
	return v
}

func (f *frame) havocMods(h *Heap, mods map[string]bool, all bool) {
	f.havocModsT(h, mods, all, nil, nil, false)
}

// havocModsT havocs what a call may modify. touched (component -> object refs), when non-nil for a component,
// restricts the change of that component to those objects. Storage this function allocated and never let
// escape cannot be reached by the callee and keeps its contents.
func (f *frame) havocModsT(h *Heap, mods map[string]bool, all bool, touched map[string][]string, except map[string]bool, objFramed bool) {
	e := f.e
	before := map[string]string{}
	for k, v := range h.m {
		before[k] = v
	}
	if all {
		e.havocAll(h)
	} else {
		var ks []string
		for k := range mods {
			ks = append(ks, k)
		}
		sort.Strings(ks)
		for _, k := range ks {
			if touched != nil {
				if _, isT := touched[k]; isT {
					continue
				}
				if strings.HasPrefix(k, "F.") && e.w.ownType(k) && objFramed {
					continue // touches clause: no other pre-existing object changes (fresh objects are invisible here)
				}
			}
			e.havocHeapComp(h, k)
		}
	}
	var tks []string
	for k := range touched {
		tks = append(tks, k)
	}
	sort.Strings(tks)
	for _, k := range tks {
		refs := touched[k]
		if !all && !mods[k] && !modsPattern(mods, k) {
			continue
		}
		so, ok := e.comps[k]
		if !ok {
			continue
		}
		old := before[k]
		if old == "" {
			if h.pending(k) {
				old = e.pendSym(h, k, so)
			} else {
				old = e.initial(k)
			}
		}
		elem := strings.TrimSuffix(strings.TrimPrefix(so, "(Array Int "), ")")
		prev := old
		for _, r := range refs {
			v := e.fresh("Hobj."+k, elem)
			if lt, ok := e.leafT[k]; ok {
				if strings.HasSuffix(k, ".l") || strings.HasSuffix(k, ".c") || strings.HasSuffix(k, ".o") {
					e.assume(fmt.Sprintf("(and (<= 0 %s) (<= %s %s))", v, v, maxCap))
				} else if rf := rangeFact(lt, v); rf != "" && !strings.HasSuffix(k, ".b") {
					e.assume(rf)
				}
			}
			nv := e.define("H."+k, so, fmt.Sprintf("(store %s %s %s)", prev, r, v))
			e.storeDefs[nv] = storeDef{prev: prev, idx: r, val: v}
			prev = nv
		}
		h.m[k] = prev
		h.dirty[k] = true
	}
	f.keepPrivate(h, before, except)
}

// ownType: the component holds a field of a struct type declared in the verified packages.
func (w *World) ownType(comp string) bool {
	tp := strings.TrimPrefix(typePrefixOf(comp), "P.")
	for tp2 := tp; strings.HasPrefix(tp2, "P."); {
		tp2 = strings.TrimPrefix(tp2, "P.")
		tp = tp2
	}
	for sp := range w.scope {
		if strings.HasPrefix(tp, sp.Pkg.Name()+".") {
			return true
		}
	}
	return false
}

// frameTrivial: version cur is reached from version old only by stores at touched objects or at fresh allocations
// (which are above pre), possibly merged over branches.
func (e *Engine) frameTrivial(cur, old string, touched []string, depth int) bool {
	if depth > 400 {
		return false
	}
	for cur != old {
		if d, ok := e.storeDefs[cur]; ok {
			okIdx := strings.HasPrefix(d.idx, "|alloc.") || strings.HasPrefix(d.idx, "(sub |alloc.")
			for _, t := range touched {
				if t == d.idx {
					okIdx = true
				}
			}
			if !okIdx {
				return false
			}
			cur = d.prev
			continue
		}
		if vs, ok := e.mergeDefs[cur]; ok {
			for _, v := range vs {
				if !e.frameTrivial(v, old, touched, depth+1) {
					return false
				}
			}
			return true
		}
		return false
	}
	return true
}

// touchedOf evaluates the contract's touches clause in the function's entry state.
func (f *frame) touchedOf() (map[string][]string, map[string]bool) {
	if f.con == nil || (len(f.con.Touches) == 0 && len(f.con.WritesTo) == 0) {
		return nil, nil
	}
	if f.touched != nil {
		return f.touched, f.touchedTypes
	}
	e := f.e
	env := f.specEnv(f.entry, nil, nil)
	f.touched = map[string][]string{}
	f.touchedTypes = map[string]bool{}
	for _, tc := range f.con.Touches {
		if tc.Expr == nil {
			continue
		}
		v, _ := e.eval(env, tc.Expr)
		if pv, ok := v.(PtrV); ok && pv.L.Kind == LObj {
			var pairs [][2]string
			e.objComps(pv.L, &pairs)
			for _, p := range pairs {
				f.touched[p[0]] = append(f.touched[p[0]], p[1])
				f.touchedTypes[typePrefixOf(p[0])] = true
			}
		} else {
			e.specErr("touches: %s is not an object", tc.Src)
		}
	}
	if len(f.con.WritesTo) > 0 {
		for _, wc := range f.con.WritesTo {
			for _, g := range ghostRole(wc.Label) {
				if _, ok := f.touched["G."+g]; !ok {
					f.touched["G."+g] = []string{}
				}
				if _, ok := e.comps["G."+g]; !ok {
					e.comps["G."+g] = fmt.Sprintf("(Array Int %s)", ghostSorts[g])
				}
			}
		}
		for _, wc := range f.con.WritesTo {
			if wc.Expr == nil {
				continue
			}
			v, _ := e.eval(env, wc.Expr)
			key := e.scalar(v)
			for _, g := range ghostRole(wc.Label) {
				f.touched["G."+g] = append(f.touched["G."+g], key)
			}
		}
		f.ghostFramed = true
	}
	if len(f.con.Touches) == 0 {
		f.objFramed = false
	} else {
		f.objFramed = true
	}
	return f.touched, f.touchedTypes
}

// frameObs: among pre-existing objects of the touched struct types, only the touched ones differ between two heaps.
func (f *frame) frameObs(kind string, pc string, from, to *Heap, pos token.Pos) {
	e := f.e
	touched, tys := f.touchedOf()
	if touched == nil {
		return
	}
	var ks []string
	_ = tys
	for k := range e.comps {
		if strings.HasPrefix(k, "F.") && e.w.ownType(k) && f.objFramed {
			ks = append(ks, k)
		}
		if _, framed := touched[k]; strings.HasPrefix(k, "G.") && f.ghostFramed && framed {
			ks = append(ks, k)
		}
	}
	sort.Strings(ks)
	for _, k := range ks {
		cur, has := to.m[k]
		old, had := from.m[k]
		if !had {
			if from.pending(k) {
				continue
			}
			old = e.initial(k)
		}
		if !has || cur == old {
			continue
		}
		if e.frameTrivial(cur, old, touched[k], 0) {
			continue // every store between the two versions is at a touched object or at storage allocated here
		}
		e.n++
		bv := q(fmt.Sprintf("r?%d", e.n))
		var ne []string
		for _, r := range touched[k] {
			ne = append(ne, fmt.Sprintf("(not (= %s %s))", bv, r))
		}
		e.useQuant = true
		// ghost state too is framed for pre-existing objects only: hashes, sinks and readers created during the call are new
		bound := fmt.Sprintf("(<= %s pre)", bv)
		cond := fmt.Sprintf("(forall ((%s Int)) (=> (and %s %s) (= (select %s %s) (select %s %s))))", bv, bound, and(ne...), cur, bv, old, bv)
		e.ob(f, kind, "touches: only the named objects change in "+k, f.tags, pc, cond, pos)
	}
}

// hasObjKeys: the touched map comes from a touches clause (object frame), not only from a writesto clause.
func hasObjKeys(touched map[string][]string) bool {
	for k := range touched {
		if strings.HasPrefix(k, "F.") {
			return true
		}
	}
	return false
}

func modsPattern(mods map[string]bool, k string) bool {
	for m := range mods {
		if strings.HasSuffix(m, "*") && strings.HasPrefix(k, strings.TrimSuffix(m, "*")) {
			return true
		}
	}
	return false
}

// touchedTypePrefix: k belongs to a struct type some touched object has (so it is covered by the touches clause).
func touchedTypePrefix(touched map[string][]string, k string) (bool, bool) {
	if !strings.HasPrefix(k, "F.") {
		return false, false
	}
	tp := typePrefixOf(k)
	for tk := range touched {
		if typePrefixOf(tk) == tp {
			return true, true
		}
	}
	return false, false
}

func typePrefixOf(comp string) string {
	// F.<type>.<field...>: the type name may itself contain dots (P.mcap.Lexer); fields never start with "P."
	rest := strings.TrimPrefix(comp, "F.")
	parts := strings.Split(rest, ".")
	// type = leading "P" markers + package + name
	i := 0
	for i < len(parts) && parts[i] == "P" {
		i++
	}
	if i+1 < len(parts) {
		return strings.Join(parts[:i+2], ".")
	}
	return rest
}

// keepPrivate re-asserts the contents of this execution's non-escaping allocations after a havoc.
// except: components the havoc legitimately covers (own stores of a loop body).
func (f *frame) keepPrivate(h *Heap, before map[string]string, except map[string]bool) {
	e := f.e
	for fr := f; fr != nil; fr = fr.parent {
		for _, a := range fr.privateAllocs() {
			v, ok := fr.vals[a]
			if !ok {
				continue
			}
			pv, ok := v.(PtrV)
			if !ok || pv.L.Kind != LObj {
				continue
			}
			if _, isArr := under(pv.L.T).(*types.Array); isArr {
				continue
			}
			var pairs [][2]string
			e.objComps(pv.L, &pairs)
			for _, p := range pairs {
				k, r := p[0], p[1]
				if except != nil && except[k] {
					continue
				}
				old, had := before[k]
				cur, has := h.m[k]
				if !had || (has && cur == old) {
					continue
				}
				if !has {
					// pending havoc: materialise the new version now so that the kept entry can be stated
					cur = e.pendSym(h, k, e.comps[k])
					h.m[k] = cur
					h.dirty[k] = true
				}
				e.assume(fmt.Sprintf("(= (select %s %s) (select %s %s))", cur, r, old, r))
			}
		}
	}
}

// privateAllocs: allocations of the function whose address never leaves it (static escape analysis).
func (f *frame) privateAllocs() []*ssa.Alloc {
	if f.privAllocs != nil {
		return f.privAllocs
	}
	f.privAllocs = []*ssa.Alloc{}
	for _, b := range f.fn.Blocks {
		for _, ins := range b.Instrs {
			if a, ok := ins.(*ssa.Alloc); ok && !escapes(a, map[ssa.Value]bool{}) {
				f.privAllocs = append(f.privAllocs, a)
			}
		}
	}
	return f.privAllocs
}

// escapes: may the pointer v (or one derived from it) become known to code outside this function?
func escapes(v ssa.Value, seen map[ssa.Value]bool) bool {
	if seen[v] {
		return false
	}
	seen[v] = true
	refs := v.Referrers()
	if refs == nil {
		return true
	}
	for _, r := range *refs {
		switch x := r.(type) {
		case *ssa.DebugRef:
		case *ssa.UnOp:
			// load through the pointer: the loaded value is not the pointer
		case *ssa.Store:
			if x.Val == v {
				return true
			}
		case *ssa.FieldAddr:
			if escapes(x, seen) {
				return true
			}
		case *ssa.IndexAddr:
			if escapes(x, seen) {
				return true
			}
		case *ssa.MakeClosure:
			if closureEscapes(x) {
				return true
			}
		case ssa.CallInstruction:
			c := x.Common()
			if b, ok := c.Value.(*ssa.Builtin); ok {
				switch b.Name() {
				case "len", "cap", "copy", "print", "println":
					continue
				}
			}
			return true
		default:
			return true
		}
	}
	return false
}

// closureEscapes: the closure is only called here or handed to sort natives (which call it and drop it).
func closureEscapes(mc *ssa.MakeClosure) bool {
	refs := mc.Referrers()
	if refs == nil {
		return true
	}
	for _, r := range *refs {
		switch x := r.(type) {
		case *ssa.DebugRef:
		case ssa.CallInstruction:
			c := x.Common()
			if c.Value == mc {
				continue
			}
			if callee := c.StaticCallee(); callee != nil {
				switch calleeName(callee) {
				case "sort.Slice", "sort.SliceStable":
					continue
				}
			}
			return true
		default:
			return true
		}
	}
	return false
}

func isExitFunc(fn *ssa.Function) bool {
	n := calleeName(fn)
	switch n {
	case "os.Exit", "log.Fatal", "log.Fatalf", "log.Fatalln", "log.Panic", "log.Panicf", "log.Panicln", "runtime.Goexit",
		"(*log.Logger).Fatal", "(*log.Logger).Fatalf", "(*log.Logger).Fatalln", "(*log.Logger).Panic", "(*log.Logger).Panicf":
		return true
	}
	return false
}

func calleeName(fn *ssa.Function) string {
	if o := fn.Origin(); o != nil {
		fn = o
	}
	if fn.Signature.Recv() != nil {
		s := fn.String()
		return s
	}
	if fn.Pkg != nil {
		return fn.Pkg.Pkg.Path() + "." + fn.Name()
	}
	return fn.String()
}

// applyContract: assert pre, havoc frame, assume post.
func (f *frame) applyContract(in ssa.Instruction, callee *ssa.Function, con *Contract, args []Val, binds []Val, pc string, h *Heap, nm string, resT types.Type, pos token.Pos) {
	e := f.e
	con.used = true
	if con.Trusted {
		e.trusted[con.Key]++
	}
	env := &Env{vars: map[string]TV{}, cells: map[string]bool{}, heap: h}
	if callee.Pkg != nil {
		env.pkg = callee.Pkg.Pkg
	} else if o := callee.Origin(); o != nil && o.Pkg != nil {
		env.pkg = o.Pkg.Pkg
	}
	for i, p := range callee.Params {
		if i < len(args) {
			env.vars[p.Name()] = TV{args[i], p.Type()}
		}
	}
	for i, fv := range callee.FreeVars {
		if i < len(binds) {
			env.vars[fv.Name()] = TV{binds[i], fv.Type()}
			if _, isP := fv.Type().(*types.Pointer); isP {
				env.cells[fv.Name()] = true
			}
		}
	}
	if env.pkg == nil && callee.Parent() != nil && callee.Parent().Pkg != nil {
		env.pkg = callee.Parent().Pkg.Pkg
	}
	pre := h.clone()
	env.old = pre
	for _, c := range con.Requires {
		ts, ls := e.conjuncts(env, c.Expr, "")
		for i := range ts {
			e.ob(f, "pre", strings.TrimPrefix(con.Key, "func ")+": "+c.clabel(ls[i]), c.tagsOr(f.safetyOr(con)), pc, ts[i], pos)
			e.assumeIf(pc, ts[i])
		}
	}
	var touched map[string][]string
	if len(con.Touches) > 0 || len(con.WritesTo) > 0 {
		touched = map[string][]string{}
	}
	if len(con.Touches) > 0 {
		for _, tc := range con.Touches {
			if tc.Expr == nil {
				continue
			}
			v, _ := e.eval(env, tc.Expr)
			if pv, ok := v.(PtrV); ok && pv.L.Kind == LObj {
				var pairs [][2]string
				e.objComps(pv.L, &pairs)
				for _, p := range pairs {
					touched[p[0]] = append(touched[p[0]], p[1])
				}
			} else {
				e.specErr("touches: %s is not an object", tc.Src)
			}
		}
	}
	if len(con.WritesTo) > 0 {
		if touched == nil {
			touched = map[string][]string{}
		}
		for _, wc := range con.WritesTo {
			for _, g := range ghostRole(wc.Label) {
				if _, ok := touched["G."+g]; !ok {
					touched["G."+g] = []string{}
				}
			}
		}
		for _, wc := range con.WritesTo {
			if wc.Expr == nil {
				continue
			}
			v, _ := e.eval(env, wc.Expr)
			key := e.scalar(v)
			for _, g := range ghostRole(wc.Label) {
				touched["G."+g] = append(touched["G."+g], key)
				if _, ok := e.comps["G."+g]; !ok {
					e.comps["G."+g] = fmt.Sprintf("(Array Int %s)", ghostSorts[g])
				}
			}
		}
	}
	if con.HasMods {
		m := map[string]bool{}
		all := false
		for _, k := range con.Modifies {
			if k == "*" {
				all = true
			} else if k != "nothing" {
				m[k] = true
			}
		}
		f.havocModsT(h, m, all, touched, nil, len(con.Touches) > 0)
	} else if callee.Blocks != nil && e.w.inScope(callee) {
		mods, all := e.w.modsOf(callee)
		f.havocModsT(h, mods, all, touched, nil, len(con.Touches) > 0)
	} else {
		f.havocModsT(h, nil, true, touched, nil, len(con.Touches) > 0)
	}

	water := e.water()
	env.water = water
	var rets []Val
	if resT == nil {
		e.bumpWater(nm)
		// results are discarded (defer, go, expression statement): the contract may still name them
		res := callee.Signature.Results()
		for i := 0; i < res.Len(); i++ {
			rets = append(rets, e.havocVal(fmt.Sprintf("%s.r%d", nm, i), res.At(i).Type()))
		}
	}
	if resT != nil {
		rv := f.resultVal(nm, resT)
		f.setResult(in, rv)
		if tv, ok := rv.(TupleV); ok {
			rets = tv
		} else {
			rets = []Val{rv}
		}
	}
	// what the callee allocated (objects newer than the watermark) holds whatever the callee stored there: the components
	// reachable by type from the results get a new version that agrees with the old one on every pre-existing object only.
	// (Without this the postcondition constrains the *old* array at a fresh index, which contradicts the allocation axiom
	// below whenever a fresh object holds a reference newer than an earlier watermark: every later path became vacuous.)
	{
		var rts []types.Type
		res := callee.Signature.Results()
		for i := 0; i < res.Len(); i++ {
			rts = append(rts, res.At(i).Type())
		}
		// ... and whatever those objects hold was allocated no later than the end of the call
		for _, nv := range f.havocFreshRegion(h, rts, water) {
			if after := e.water(); after != water {
				e.assume(fmt.Sprintf("(forall ((r Int)) (! (<= (select %s r) %s) :pattern ((select %s r))))", nv, after, nv))
			}
		}
	}
	env.heap = h
	resultEnv(env, callee.Signature, rets)
	for _, c := range con.Ensures {
		if strings.Contains(c.Src, "fresh(") {
			// what the callee allocated is newer than every reference the heap held before the call
			e.assumeHeapBelow(pre, water)
			break
		}
	}
	for _, c := range con.Ensures {
		if clauseUsesLabels(c) {
			continue // states captured inside the callee (at(L, ...)) do not exist for the caller: the clause is not assumed
		}
		e.assumeIf(pc, e.evalBool(env, c.Expr))
	}
}

var labelUseRe = regexp.MustCompile(`\bat\(`)

func clauseUsesLabels(c *Clause) bool { return labelUseRe.MatchString(c.Src) }

func (f *frame) safetyOr(con *Contract) []string {
	return f.safety
}

// ---------- builtins ----------

func (f *frame) builtin(in ssa.Instruction, b *ssa.Builtin, c *ssa.CallCommon, args []Val, pc string, h *Heap, nm string, resT types.Type) {
	e := f.e
	switch b.Name() {
	case "len":
		switch a := args[0].(type) {
		case SliceV:
			f.setResult(in, Sc{a.L})
		case Sc:
			t := c.Args[0].Type()
			if isStr(t) {
				f.setResult(in, Sc{fmt.Sprintf("(slen %s)", a.T)})
			} else if _, isMap := under(t).(*types.Map); isMap {
				if _, _, card, _, _, ok := e.mapComps(h, t); ok {
					v := e.define(nm+".len", "Int", fmt.Sprintf("(ite (= %s 0) 0 (select %s %s))", a.T, card, a.T))
					// a map holds at most as many entries as its key type has values, and never more than fit in memory (A1)
					bound := maxCap
					if ki, ok := intInfoOf(under(t).(*types.Map).Key()); ok && ki.bits <= 32 {
						bound = ki.mod
					}
					e.assume(fmt.Sprintf("(and (>= %s 0) (<= %s %s))", v, v, bound))
					f.setResult(in, Sc{v})
				} else {
					v := e.fresh(nm+".len", "Int")
					e.assume(fmt.Sprintf("(>= %s 0)", v))
					f.setResult(in, Sc{v})
				}
			} else {
				f.setResult(in, e.havocVal(nm, resT))
			}
		default:
			f.setResult(in, e.havocVal(nm, resT))
		}
	case "cap":
		if a, ok := args[0].(SliceV); ok {
			f.setResult(in, Sc{a.C})
		} else {
			f.setResult(in, e.havocVal(nm, resT))
		}
	case "append":
		f.appendB(in, c, args, pc, h, nm, resT)
	case "copy":
		f.copyB(in, c, args, pc, h, nm)
	case "delete":
		t := c.Args[0].Type()
		if dom, _, card, _, _, ok := e.mapComps(h, t); ok {
			m := e.scalar(args[0])
			k := e.scalar(args[1])
			n := "M." + tname(t)
			e.setComp(h, n+".card", fmt.Sprintf("(store %s %s (- (select %s %s) (ite (select (select %s %s) %s) 1 0)))", card, m, card, m, dom, m, k))
			e.setComp(h, n+".dom", fmt.Sprintf("(store %s %s (store (select %s %s) %s false))", dom, m, dom, m, k))
		}
	case "min", "max":
		if len(args) == 2 && isInt(resT) {
			a, bb := e.scalar(args[0]), e.scalar(args[1])
			op := "<="
			if b.Name() == "max" {
				op = ">="
			}
			f.setResult(in, Sc{e.define(nm, "Int", fmt.Sprintf("(ite (%s %s %s) %s %s)", op, a, bb, a, bb))})
		} else {
			f.setResult(in, e.havocVal(nm, resT))
		}
	case "print", "println", "clear":
		if b.Name() == "clear" {
			e.unsupp["builtin-clear"]++
		}
	case "recover":
		e.unsupp["recover"]++
		f.setResult(in, e.havocVal(nm, resT))
	default:
		e.unsupp["builtin-"+b.Name()]++
		if resT != nil {
			f.setResult(in, e.havocVal(nm, resT))
		}
	}
}

// elemComps lists the element components (name, sort) of a slice element type.
func (e *Engine) elemComps(et types.Type) [][2]string {
	var out [][2]string
	var walk func(l *Loc)
	walk = func(l *Loc) {
		switch u := under(l.T).(type) {
		case *types.Struct:
			for i := 0; i < u.NumFields(); i++ {
				walk(&Loc{Kind: LField, Parent: l, Idx: i, T: u.Field(i).Type()})
			}
		case *types.Slice:
			n, _ := e.compName(l)
			for _, s := range []string{".b", ".o", ".l", ".c"} {
				out = append(out, [2]string{n + s, "Int"})
			}
		case *types.Array:
		default:
			so := sortOf(l.T)
			if so == "" {
				so = "Int"
			}
			n, _ := e.compName(l)
			out = append(out, [2]string{n, so})
		}
	}
	walk(&Loc{Kind: LElem, Base: "_", Index: "_", T: et})
	return out
}

func (f *frame) appendB(in ssa.Instruction, c *ssa.CallCommon, args []Val, pc string, h *Heap, nm string, resT types.Type) {
	e := f.e
	a, _ := args[0].(SliceV)
	if _, ok := args[0].(SliceV); !ok {
		a = SliceV{"0", "0", "0", "0"}
	}
	et := under(resT).(*types.Slice).Elem()
	var addl string
	var src *SliceV
	var srcStr string
	switch bb := args[1].(type) {
	case SliceV:
		addl = bb.L
		src = &bb
	case Sc:
		addl = fmt.Sprintf("(slen %s)", bb.T)
		srcStr = bb.T
	default:
		addl = "0"
	}
	newLen := e.define(nm+".l", "Int", fmt.Sprintf("(+ %s %s)", a.L, addl))
	inPlace := e.define(nm+".inplace", "Bool", fmt.Sprintf("(<= %s %s)", newLen, a.C))
	fb := e.newRef(nm + ".b")
	fc := e.fresh(nm+".c", "Int")
	rB := e.define(nm+".rb", "Int", fmt.Sprintf("(ite %s %s %s)", inPlace, a.B, fb))
	rO := e.define(nm+".ro", "Int", fmt.Sprintf("(ite %s %s 0)", inPlace, a.O))
	rC := e.define(nm+".rc", "Int", fmt.Sprintf("(ite %s %s %s)", inPlace, a.C, fc))
	e.assume(fmt.Sprintf("(and (<= %s %s) (<= %s %s))", newLen, fc, fc, maxCap))
	// growth: amortised, the new capacity is bounded by a multiple of the new length (runtime growslice)
	es := e.w.sizes.Sizeof(et)
	if es < 1 {
		es = 1
	}
	constAdd := false
	if sl, ok := c.Args[1].(*ssa.Slice); ok {
		if al, ok := sl.X.(*ssa.Alloc); ok {
			if _, isArr := under(al.Type().(*types.Pointer).Elem()).(*types.Array); isArr {
				constAdd = true
			}
		}
	}
	if _, isC := strconvAtoi(addl); isC {
		constAdd = true
	}
	if !constAdd {
		// appending a constant number of elements grows the slice by amortised O(1) per executed statement:
		// the total is bounded by the work done, not by a length field; only data-sized appends are bounded here
		f.allocOb(pc, fmt.Sprintf("(ite %s 0 (* %d %s))", inPlace, es, newLen), in.Pos(), in)
	}
	// element contents
	e.useQuant = true
	for _, cs := range e.elemComps(et) {
		name, so := cs[0], cs[1]
		arr := e.comp(h, name, so, true)
		na := e.fresh("Happ."+name, fmt.Sprintf("(Array Int %s)", so))
		oldRow := fmt.Sprintf("(select %s %s)", arr, a.B)
		// kept prefix (absolute index j of the new backing array)
		e.assumeGlobal(fmt.Sprintf("(forall ((j Int)) (! (=> (and (<= %s j) (< j (+ %s %s))) (= (select %s j) (select %s (+ (- j %s) %s)))) :pattern ((select %s j))))", rO, rO, a.L, na, oldRow, rO, a.O, na))
		// in place: everything outside the appended range is unchanged
		e.assumeGlobal(fmt.Sprintf("(=> %s (forall ((j Int)) (! (=> (or (< j (+ %s %s)) (>= j (+ %s %s))) (= (select %s j) (select %s j))) :pattern ((select %s j)))))", inPlace, a.O, a.L, a.O, newLen, na, oldRow, na))
		if src != nil {
			srcRow := fmt.Sprintf("(select %s %s)", arr, src.B)
			e.assumeGlobal(fmt.Sprintf("(forall ((j Int)) (! (=> (and (<= (+ %s %s) j) (< j (+ %s %s))) (= (select %s j) (select %s (+ (- j (+ %s %s)) %s)))) :pattern ((select %s j))))", rO, a.L, rO, newLen, na, srcRow, rO, a.L, src.O, na))
		} else if srcStr != "" && so == "Int" {
			e.assumeGlobal(fmt.Sprintf("(forall ((j Int)) (! (=> (and (<= (+ %s %s) j) (< j (+ %s %s))) (= (select %s j) (sat %s (- j (+ %s %s))))) :pattern ((select %s j))))", rO, a.L, rO, newLen, na, srcStr, rO, a.L, na))
		}
		e.setComp(h, name, fmt.Sprintf("(store %s %s %s)", arr, rB, na))
	}
	f.setResult(in, SliceV{rB, rO, newLen, rC})
}

func (f *frame) copyB(in ssa.Instruction, c *ssa.CallCommon, args []Val, pc string, h *Heap, nm string) {
	e := f.e
	dst, ok := args[0].(SliceV)
	if !ok {
		f.setResult(in, Sc{"0"})
		return
	}
	et := under(c.Args[0].Type()).(*types.Slice).Elem()
	var srcLen, srcStr string
	var src *SliceV
	switch bb := args[1].(type) {
	case SliceV:
		srcLen = bb.L
		src = &bb
	case Sc:
		srcLen = fmt.Sprintf("(slen %s)", bb.T)
		srcStr = bb.T
	default:
		srcLen = "0"
	}
	n := e.define(nm+".n", "Int", fmt.Sprintf("(ite (<= %s %s) %s %s)", dst.L, srcLen, dst.L, srcLen))
	e.useQuant = true
	for _, cs := range e.elemComps(et) {
		name, so := cs[0], cs[1]
		arr := e.comp(h, name, so, true)
		na := e.fresh("Hcpy."+name, fmt.Sprintf("(Array Int %s)", so))
		oldRow := fmt.Sprintf("(select %s %s)", arr, dst.B)
		e.assumeGlobal(fmt.Sprintf("(forall ((j Int)) (! (=> (or (< j %s) (>= j (+ %s %s))) (= (select %s j) (select %s j))) :pattern ((select %s j))))", dst.O, dst.O, n, na, oldRow, na))
		if src != nil {
			srcRow := fmt.Sprintf("(select %s %s)", arr, src.B)
			e.assumeGlobal(fmt.Sprintf("(forall ((j Int)) (! (=> (and (<= %s j) (< j (+ %s %s))) (= (select %s j) (select %s (+ (- j %s) %s)))) :pattern ((select %s j))))", dst.O, dst.O, n, na, srcRow, dst.O, src.O, na))
		} else if srcStr != "" && so == "Int" {
			e.assumeGlobal(fmt.Sprintf("(forall ((j Int)) (! (=> (and (<= %s j) (< j (+ %s %s))) (= (select %s j) (sat %s (- j %s)))) :pattern ((select %s j))))", dst.O, dst.O, n, na, srcStr, dst.O, na))
		}
		e.setComp(h, name, fmt.Sprintf("(store %s %s %s)", arr, dst.B, na))
	}
	f.setResult(in, Sc{n})
}

func strconvAtoi(s string) (int, bool) {
	n := 0
	if s == "" {
		return 0, false
	}
	for _, c := range s {
		if c < '0' || c > '9' {
			return 0, false
		}
		n = n*10 + int(c-'0')
	}
	return n, true
}

// ---------- invokes and dynamic calls ----------

func ifaceMethodKey(c *ssa.CallCommon) string {
	recvT := c.Value.Type()
	name := "?"
	if n, ok := recvT.(*types.Named); ok {
		if n.Obj().Pkg() != nil {
			name = n.Obj().Pkg().Path() + "." + n.Obj().Name()
		} else {
			name = n.Obj().Name()
		}
	}
	return "(" + name + ")." + c.Method.Name()
}

func (f *frame) invoke(in ssa.Instruction, c *ssa.CallCommon, recv Val, args []Val, pc string, h *Heap, nm string, resT types.Type) bool {
	e := f.e
	r := e.scalar(recv)
	// devirtualise: the receiver was built by MakeInterface from a type of the verified packages
	if info, ok := e.ifaces[r]; ok {
		if m := e.w.methodOf(info.Dyn, c.Method.Name()); m != nil && e.w.inScope(m) && m.Blocks != nil {
			target := m
			recvArg := info.P
			// promoted/wrapper methods: call the declared method when the receiver shapes agree
			if len(target.Params) == len(args)+1 {
				return f.staticCall(in, target, append([]Val{recvArg}, args...), nil, pc, h, nm, resT, in.Pos())
			}
		}
	}
	f.safetyOb("nopanic:nil", pc, fmt.Sprintf("(not (= %s 0))", r), in.Pos(), in)
	key := ifaceMethodKey(c)
	// methods by name, whatever interface they are invoked through
	mname := c.Method.Name()
	if nat, ok := invokeNatives[mname+"/"+sigShape(c.Method.Type().(*types.Signature))]; ok {
		e.trusted["invoke "+mname]++
		saved := e.condAssume
		e.condAssume = true
		ok := nat(f, in, c, r, args, pc, h, nm, resT)
		e.condAssume = saved
		return ok
	}
	e.unmod["invoke "+key]++
	mods, all := e.w.invokeMods(c.Method, c.Value.Type())
	f.havocMods(h, mods, all)
	if resT != nil {
		f.setResult(in, f.resultVal(nm, resT))
	}
	return true
}

func sigShape(s *types.Signature) string {
	return fmt.Sprintf("%d:%d", s.Params().Len(), s.Results().Len())
}

func (f *frame) dynamicCall(in ssa.Instruction, c *ssa.CallCommon, args []Val, pc string, h *Heap, nm string, resT types.Type) bool {
	e := f.e
	fv := e.scalar(f.get(c.Value))
	f.safetyOb("nopanic:nil", pc, fmt.Sprintf("(not (= %s 0))", fv), in.Pos(), in)
	e.unmod["callback "+types.TypeString(c.Value.Type(), func(p *types.Package) string { return p.Name() })]++
	// A7: callbacks do not touch library-internal state; they may fill the objects they are handed.
	mods := map[string]bool{"E.uint8": true}
	touched := map[string][]string{}
	for i, a := range c.Args {
		if p, ok := under(a.Type()).(*types.Pointer); ok {
			if _, isStruct := under(p.Elem()).(*types.Struct); isStruct {
				e.storeComps(&Loc{Kind: LObj, Ref: "_", T: p.Elem()}, mods)
				if pv, ok := args[i].(PtrV); ok && pv.L.Kind == LObj {
					var pairs [][2]string
					e.objComps(pv.L, &pairs)
					for _, pr := range pairs {
						touched[pr[0]] = append(touched[pr[0]], pr[1])
					}
				}
			}
		}
	}
	for k := range ghostSorts {
		if (strings.HasPrefix(k, "wr_") || strings.HasPrefix(k, "rd_")) && k != "rd_fault" {
			mods["G."+k] = true // a callback may read from the source or write to a sink it was given
		}
	}
	f.havocModsT(h, mods, false, touched, nil, true) // A7: a callback changes only the objects it is handed
	{
		// ghost call counter of the function value: lets a contract say that a record was handed to the callback
		calls := e.ghost(h, "cb_calls")
		e.setGhost(h, "cb_calls", calls, fv, fmt.Sprintf("(+ (select %s %s) 1)", calls, fv))
	}
	if resT != nil {
		f.setResult(in, f.resultVal(nm, resT))
	}
	return true
}

// ---------- what may a function modify ----------

// staticLoc builds a location for naming components from an SSA address expression (terms are dummies).
func (e *Engine) staticLoc(addr ssa.Value) *Loc {
	switch a := addr.(type) {
	case *ssa.FieldAddr:
		p := e.staticLoc(a.X)
		if p == nil {
			return nil
		}
		if _, ok := under(p.T).(*types.Struct); !ok {
			return nil
		}
		save := e.once
		e.once = map[string]bool{}
		facts := len(e.facts)
		l := e.fieldLoc(p, a.Field)
		e.facts = e.facts[:facts]
		e.once = save
		return l
	case *ssa.IndexAddr:
		switch xt := under(a.X.Type()).(type) {
		case *types.Slice:
			return &Loc{Kind: LElem, Base: "_", Index: "_", T: xt.Elem()}
		case *types.Pointer:
			if at, ok := under(xt.Elem()).(*types.Array); ok {
				return &Loc{Kind: LElem, Base: "_", Index: "_", T: at.Elem()}
			}
		}
		return nil
	}
	if pt, ok := under(addr.Type()).(*types.Pointer); ok {
		return &Loc{Kind: LObj, Ref: "_", T: pt.Elem()}
	}
	return nil
}

type modSet struct {
	m   map[string]bool
	all bool
	// own: the set is for the function's own execution (loop frames): stores into storage it allocated count too
	own bool
}

func (w *World) instrMods(e *Engine, fn *ssa.Function, ins ssa.Instruction, out *modSet, stack map[*ssa.Function]bool) {
	add := func(m map[string]bool, all bool) {
		for k := range m {
			out.m[k] = true
		}
		if all {
			out.all = true
		}
	}
	switch in := ins.(type) {
	case *ssa.Store:
		if _, isG := in.Addr.(*ssa.Global); isG {
			return
		}
		if !out.own && freshRooted(in.Addr) {
			return // a store into an object this function allocated does not change any pre-existing object
		}
		if l := e.staticLoc(in.Addr); l != nil {
			// stores to the function's own non-escaping locals are invisible outside, but naming them is harmless
			e.storeComps(l, out.m)
		} else {
			out.all = true
		}
	case *ssa.MapUpdate:
		n := "M." + tname(in.Map.Type())
		out.m[n+".dom"], out.m[n+".val"], out.m[n+".card"] = true, true, true
	case *ssa.Next, *ssa.Range:
		if out.own {
			// the visited set of a range loop in progress is state of this function's own iterators only
			out.m["G.seen"], out.m["G.seen_s"] = true, true
		}
	case *ssa.Alloc, *ssa.MakeSlice, *ssa.Convert, *ssa.MakeMap:
		// fresh storage: invisible to pre-existing objects
		if out.own {
			switch x := in.(type) {
			case *ssa.Alloc:
				pt := x.Type().(*types.Pointer)
				if at, ok := under(pt.Elem()).(*types.Array); ok {
					if sortOf(at.Elem()) != "" {
						out.m["E."+tname(at.Elem())] = true
					}
				} else {
					e.storeComps(&Loc{Kind: LObj, Ref: "_", T: pt.Elem()}, out.m)
				}
			case *ssa.MakeSlice:
				if et := under(x.Type()).(*types.Slice).Elem(); sortOf(et) != "" {
					out.m["E."+tname(et)] = true
				}
			case *ssa.Convert:
				if st, ok := under(x.Type()).(*types.Slice); ok && isStr(x.X.Type()) {
					out.m["E."+tname(st.Elem())] = true
				}
			case *ssa.MakeMap:
				n := "M." + tname(x.Type())
				out.m[n+".dom"], out.m[n+".card"] = true, true
			}
		}
	case ssa.CallInstruction:
		c := in.Common()
		if b, ok := c.Value.(*ssa.Builtin); ok {
			switch b.Name() {
			case "append", "copy":
				if st, ok := under(c.Args[0].Type()).(*types.Slice); ok {
					for _, cs := range e.elemComps(st.Elem()) {
						out.m[cs[0]] = true
					}
				}
			case "delete":
				n := "M." + tname(c.Args[0].Type())
				out.m[n+".dom"], out.m[n+".card"] = true, true
			}
			return
		}
		if c.IsInvoke() {
			if ms, ok := invokeNativeMods[c.Method.Name()+"/"+sigShape(c.Method.Type().(*types.Signature))]; ok {
				for _, k := range ms {
					out.m[k] = true
				}
				// in-scope implementations run real code
				m, all := w.implMods(c.Method, c.Value.Type(), stack)
				add(m, all)
				return
			}
			m, all := w.invokeModsS(c.Method, c.Value.Type(), stack)
			add(m, all)
			return
		}
		callee := c.StaticCallee()
		if callee == nil {
			if mc, ok := c.Value.(*ssa.MakeClosure); ok {
				callee = mc.Fn.(*ssa.Function)
			}
		}
		if callee == nil {
			// closure values created in this function and called through a local
			if fnv := closureSource(c.Value); fnv != nil {
				callee = fnv
			}
		}
		if callee == nil {
			// unknown function value: callback assumption A7
			out.m["E.uint8"] = true
			out.m["G.cb_calls"] = true
			for _, a := range c.Args {
				if p, ok := under(a.Type()).(*types.Pointer); ok {
					if _, isStruct := under(p.Elem()).(*types.Struct); isStruct {
						e.storeComps(&Loc{Kind: LObj, Ref: "_", T: p.Elem()}, out.m)
					}
				}
			}
			for k := range ghostSorts {
				if (strings.HasPrefix(k, "wr_") || strings.HasPrefix(k, "rd_")) && k != "rd_fault" {
					out.m["G."+k] = true // rd_fault records the library's own reads only
				}
			}
			return
		}
		name := calleeName(callee)
		if ms, ok := nativeMods[name]; ok {
			for _, k := range ms {
				if k == "*" {
					out.all = true
				} else {
					out.m[k] = true
				}
			}
			return
		}
		if isExitFunc(callee) {
			return
		}
		if con := w.contractFor(callee); con != nil && con.HasMods {
			for _, k := range con.Modifies {
				if k == "*" {
					out.all = true
				} else if k != "nothing" {
					out.m[k] = true
				}
			}
			return
		}
		if w.inScope(callee) && callee.Blocks != nil {
			m, all := w.modsOfS(callee, stack)
			add(m, all)
			return
		}
		if !pureExternal(name) {
			out.all = true
		}
	}
}

// freshRooted: the address is (a field or element of) storage allocated by this very function.
func freshRooted(addr ssa.Value) bool {
	for {
		switch a := addr.(type) {
		case *ssa.FieldAddr:
			addr = a.X
		case *ssa.IndexAddr:
			switch x := a.X.(type) {
			case *ssa.MakeSlice:
				return true
			case *ssa.Slice:
				addr = x.X
			default:
				addr = a.X
			}
		case *ssa.Slice:
			addr = a.X
		case *ssa.Alloc:
			return true
		case *ssa.MakeSlice:
			return true
		default:
			return false
		}
	}
}

func closureSource(v ssa.Value) *ssa.Function {
	switch x := v.(type) {
	case *ssa.MakeClosure:
		return x.Fn.(*ssa.Function)
	case *ssa.Function:
		return x
	}
	return nil
}

func (w *World) modsOf(fn *ssa.Function) (map[string]bool, bool) {
	return w.modsOfS(fn, map[*ssa.Function]bool{})
}

func (w *World) modsOfS(fn *ssa.Function, stack map[*ssa.Function]bool) (map[string]bool, bool) {
	w.mu.Lock()
	if ms, ok := w.modCache[fn]; ok {
		w.mu.Unlock()
		return ms.m, ms.all
	}
	w.mu.Unlock()
	if stack[fn] {
		return nil, false // recursion: the outer computation adds this function's own effects
	}
	stack[fn] = true
	defer delete(stack, fn)
	e := newEngine(w, fn)
	e.quiet = true
	out := &modSet{m: map[string]bool{}}
	for _, b := range fn.Blocks {
		for _, ins := range b.Instrs {
			w.instrMods(e, fn, ins, out, stack)
		}
	}
	// closures defined inside may run when called by this function (handled at call sites) or later (not our concern)
	if len(stack) == 1 { // only cache results not truncated by recursion cut-offs
		w.mu.Lock()
		w.modCache[fn] = out
		w.mu.Unlock()
	}
	return out.m, out.all
}

func (w *World) loopMods(fn *ssa.Function, li *loopInfo) (map[string]bool, map[string]bool, bool) {
	e := newEngine(w, fn)
	e.quiet = true
	out := &modSet{m: map[string]bool{}, own: true}
	own := &modSet{m: map[string]bool{}, own: true}
	for b := range li.blocks {
		for _, ins := range b.Instrs {
			w.instrMods(e, fn, ins, out, map[*ssa.Function]bool{fn: false})
			// the body's own writes: everything except what calls to functions with bodies or contracts do
			if ci, isCall := ins.(ssa.CallInstruction); isCall {
				if _, isB := ci.Common().Value.(*ssa.Builtin); !isB {
					continue
				}
			}
			w.instrMods(e, fn, ins, own, map[*ssa.Function]bool{fn: false})
		}
	}
	return out.m, own.m, out.all
}

// implMods: union of the effects of the in-scope implementations of an interface method.
func (w *World) implMods(m *types.Func, iface types.Type, stack map[*ssa.Function]bool) (map[string]bool, bool) {
	out := map[string]bool{}
	all := false
	for _, fn := range w.implementations(m, iface) {
		mm, a := w.modsOfS(fn, stack)
		for k := range mm {
			out[k] = true
		}
		if a {
			all = true
		}
	}
	return out, all
}

func (w *World) invokeMods(m *types.Func, iface types.Type) (map[string]bool, bool) {
	return w.invokeModsS(m, iface, map[*ssa.Function]bool{})
}

func (w *World) invokeModsS(m *types.Func, iface types.Type, stack map[*ssa.Function]bool) (map[string]bool, bool) {
	out, all := w.implMods(m, iface, stack)
	// unknown external implementations: byte buffers handed to them and ghost state (A2/A6/A7)
	out["E.uint8"] = true
	for k := range ghostSorts {
		out["G."+k] = true
	}
	return out, all
}

// implementations finds the in-scope concrete methods that can run when method m is invoked on a value of the
// given interface type: methods of the same name on types that implement that interface.
func (w *World) implementations(m *types.Func, iface types.Type) []*ssa.Function {
	w.mu.Lock()
	defer w.mu.Unlock()
	it, _ := under(iface).(*types.Interface)
	key := m.Name() + "/" + sigShape(m.Type().(*types.Signature)) + "/" + types.TypeString(iface, nil)
	if r, ok := w.implCache[key]; ok {
		return r
	}
	var out []*ssa.Function
	for _, fn := range w.funcs {
		recv := fn.Signature.Recv()
		if recv == nil || fn.Name() != m.Name() || fn.Blocks == nil {
			continue
		}
		if sigShape(fn.Signature) != sigShape(m.Type().(*types.Signature)) {
			continue
		}
		if it != nil {
			rt := recv.Type()
			if !types.Implements(rt, it) && !types.Implements(types.NewPointer(rt), it) {
				continue
			}
		}
		out = append(out, fn)
	}
	w.implCache[key] = out
	return out
}

// inlinable: small loop-free in-scope function.
func (w *World) inlinable(fn *ssa.Function) bool {
	if fn.Blocks == nil {
		return false
	}
	n := 0
	for _, b := range fn.Blocks {
		for _, s := range b.Succs {
			if isBackEdge(b, s) {
				return false
			}
		}
		for _, ins := range b.Instrs {
			if _, ok := ins.(*ssa.DebugRef); ok {
				continue
			}
			n++
			if _, ok := ins.(*ssa.Defer); ok {
				return false
			}
		}
	}
	return n <= inlineMaxInstrs
}

// havocFreshRegion gives the components of the struct types reachable from ts (through pointer fields, three levels) a new
// version that is unconstrained at references newer than water and unchanged at all others.
func (f *frame) havocFreshRegion(h *Heap, ts []types.Type, water string) (refArrays []string) {
	e := f.e
	seen := map[string]bool{}
	comps := map[string]bool{}
	var walk func(t types.Type, depth int)
	walk = func(t types.Type, depth int) {
		pt, ok := under(t).(*types.Pointer)
		if !ok {
			return
		}
		st, ok := under(pt.Elem()).(*types.Struct)
		if !ok {
			return
		}
		key := tname(pt.Elem())
		if seen[key] || depth > 3 {
			return
		}
		seen[key] = true
		var pairs [][2]string
		e.objComps(&Loc{Kind: LObj, Ref: "0", T: pt.Elem()}, &pairs)
		for _, p := range pairs {
			comps[p[0]] = true
		}
		var fields func(st *types.Struct)
		fields = func(st *types.Struct) {
			for i := 0; i < st.NumFields(); i++ {
				ft := st.Field(i).Type()
				if s2, ok := under(ft).(*types.Struct); ok {
					fields(s2)
				} else {
					walk(ft, depth+1)
				}
			}
		}
		fields(st)
	}
	for _, t := range ts {
		walk(t, 0)
	}
	var ks []string
	for k := range comps {
		ks = append(ks, k)
	}
	sort.Strings(ks)
	for _, k := range ks {
		so := e.comps[k]
		if !strings.HasPrefix(so, "(Array Int ") {
			continue
		}
		old := h.m[k]
		if old == "" {
			if h.pending(k) {
				old = e.pendSym(h, k, so)
			} else {
				old = e.initial(k)
			}
		}
		nv := e.fresh("Hfr."+k, so)
		e.byteRange(k, nv)
		e.useQuant = true
		e.assume(fmt.Sprintf("(forall ((r Int)) (! (=> (<= r %s) (= (select %s r) (select %s r))) :pattern ((select %s r))))", water, nv, old, nv))
		h.m[k] = nv
		h.dirty[k] = true
		lt, hasT := e.leafT[k]
		if so == "(Array Int Int)" && (e.refComp[k] || strings.HasSuffix(k, ".b") || (hasT && isRefType(lt) && !strings.HasSuffix(k, ".l") && !strings.HasSuffix(k, ".c") && !strings.HasSuffix(k, ".o"))) {
			refArrays = append(refArrays, nv)
		}
	}
	return refArrays
}

// assumeHeapBelow: every reference stored in the heap h was allocated no later than the watermark (an invariant of
// allocation: nothing can hold a reference to an object that does not exist yet). Stated for the components that hold
// references and are currently materialised.
func (e *Engine) assumeHeapBelow(h *Heap, water string) {
	var ks []string
	for k := range h.m {
		if e.refComp[k] {
			ks = append(ks, k)
		}
	}
	sort.Strings(ks)
	for _, k := range ks {
		v := h.m[k]
		key := "below:" + v + ":" + water
		if e.once[key] {
			continue
		}
		e.once[key] = true
		e.useQuant = true
		if strings.HasPrefix(e.comps[k], "(Array Int (Array Int") {
			e.assume(fmt.Sprintf("(forall ((r Int) (i Int)) (! (<= (select (select %s r) i) %s) :pattern ((select (select %s r) i))))", v, water, v))
		} else if e.comps[k] == "(Array Int Int)" {
			e.assume(fmt.Sprintf("(forall ((r Int)) (! (<= (select %s r) %s) :pattern ((select %s r))))", v, water, v))
		}
	}
}
