// govc: contract files (/*@ ... @*/ blocks), the specification expression language and its evaluation.
package main

import (
	"fmt"
	"go/ast"
	"go/constant"
	"go/parser"
	"go/token"
	"go/types"
	"os"
	"regexp"
	"sort"
	"strconv"
	"strings"

	"golang.org/x/tools/go/ssa"
)

type Clause struct {
	Kind  string // requires ensures invariant decreases
	Loop  int
	Label string
	Tags  []string
	Src   string
	Expr  ast.Expr
	File  string
	Line  int
	idx   int
	// call-site clauses: `call <Name>#<k> assert|label|invariant ...`
	CallName string
	CallOrd  int
}

func (c *Clause) label() string {
	if c.Label != "" {
		return c.Label
	}
	s := strings.Join(strings.Fields(c.Src), " ")
	if len(s) > 70 {
		s = s[:70]
	}
	return s
}

// clabel names one conjunct of the clause.
func (c *Clause) clabel(conj string) string {
	if c.Label != "" {
		return c.Label + " :: " + conj
	}
	return conj
}

func (c *Clause) tagsOr(def []string) []string {
	if len(c.Tags) > 0 {
		return c.Tags
	}
	return def
}

type Contract struct {
	Key      string
	Tags     []string
	Safety   []string
	Requires []*Clause
	Ensures  []*Clause
	Loops    []*Clause
	Calls    []*Clause // call-site clauses (assert / label / invariant), keyed by callee name and ordinal
	GhostDefs []*GhostDef // ghost marks given to objects the function creates
	Trusted  bool
	Touches  []*Clause // objects whose fields (and nothing else of their struct types) the function may change
	WritesTo []*Clause // writers/readers/hashes whose ghost state (and no other object's) the function may change
	Modifies []string
	HasMods  bool
	NoInline bool
	Inline   bool
	File     string
	Line     int
	used     bool
}

// GhostDef: `ghostdef name(obj) = value when cond` — at the function's return, if cond holds (it must imply that obj
// was allocated by this call, so that nobody has observed its ghost state yet), the ghost component name of obj is value.
type GhostDef struct {
	Name             string
	Obj, Value, Cond ast.Expr
	Src              string
	Line             int
}

type SpecFunc struct {
	Name   string
	Params []string
	Body   ast.Expr
	Src    string
}

type ContractSet struct {
	byKey map[string]*Contract
	specs map[string]*SpecFunc
	errs  []string
}

var blockRe = regexp.MustCompile(`(?s)/\*@(.*?)@\*/`)
var ghostDefRe = regexp.MustCompile(`^([a-z_]+)\((.+?)\)\s*=\s*(.+?)\s+when\s+(.+)$`)
var clauseHead = regexp.MustCompile(`^(requires|ensures|ghostdef|tags|safety|loop|call|modifies|touches|writesto|trusted|noinline|inline)\b`)
var callSiteRe = regexp.MustCompile(`^([A-Za-z_][A-Za-z0-9_.]*)#([0-9]+)\s+(assert|label|invariant)\b\s*(.*)$`)

// rewriteImp turns `a ==> b` (lowest precedence, right associative) into imp(a, b), recursively inside brackets.
func rewriteImp(s string) string {
	// split on top-level commas first
	parts := splitTop(s, ",")
	for i, p := range parts {
		ops := splitTop(p, "==>")
		for j, o := range ops {
			ops[j] = rewriteGroups(o)
		}
		r := ops[len(ops)-1]
		for j := len(ops) - 2; j >= 0; j-- {
			r = "imp(" + ops[j] + ", " + r + ")"
		}
		parts[i] = r
	}
	return strings.Join(parts, ",")
}

func splitTop(s, sep string) []string {
	var out []string
	depth := 0
	last := 0
	inStr := false
	for i := 0; i < len(s); i++ {
		c := s[i]
		if inStr {
			if c == '\\' {
				i++
			} else if c == '"' {
				inStr = false
			}
			continue
		}
		switch c {
		case '"':
			inStr = true
		case '(', '[', '{':
			depth++
		case ')', ']', '}':
			depth--
		}
		if depth == 0 && strings.HasPrefix(s[i:], sep) {
			out = append(out, s[last:i])
			last = i + len(sep)
			i += len(sep) - 1
		}
	}
	out = append(out, s[last:])
	return out
}

func rewriteGroups(s string) string {
	var b strings.Builder
	for i := 0; i < len(s); i++ {
		c := s[i]
		if c == '"' {
			j := i + 1
			for j < len(s) && s[j] != '"' {
				if s[j] == '\\' {
					j++
				}
				j++
			}
			b.WriteString(s[i:min(j+1, len(s))])
			i = j
			continue
		}
		if c == '(' || c == '[' {
			closeCh := byte(')')
			if c == '[' {
				closeCh = ']'
			}
			depth := 0
			j := i
			for ; j < len(s); j++ {
				if s[j] == '(' || s[j] == '[' {
					depth++
				} else if s[j] == ')' || s[j] == ']' {
					depth--
					if depth == 0 {
						break
					}
				}
			}
			if j >= len(s) {
				b.WriteString(s[i:])
				return b.String()
			}
			b.WriteByte(c)
			b.WriteString(rewriteImp(s[i+1 : j]))
			b.WriteByte(closeCh)
			i = j
			continue
		}
		b.WriteByte(c)
	}
	return b.String()
}

func parseSpecExpr(src string) (ast.Expr, error) {
	return parser.ParseExpr(rewriteImp(src))
}

var labelRe = regexp.MustCompile(`^\s*\[([^\]]+)\]\s*`)
var tagsRe = regexp.MustCompile(`^\s*\{([^}]*)\}\s*`)

func (cs *ContractSet) loadFile(path string) {
	data, err := os.ReadFile(path)
	if err != nil {
		return
	}
	text := string(data)
	for _, m := range blockRe.FindAllStringSubmatchIndex(text, -1) {
		body := text[m[2]:m[3]]
		line0 := 1 + strings.Count(text[:m[2]], "\n")
		cs.parseBlock(path, line0, body)
	}
}

func (cs *ContractSet) errf(file string, line int, format string, a ...interface{}) {
	cs.errs = append(cs.errs, fmt.Sprintf("%s:%d: %s", file, line, fmt.Sprintf(format, a...)))
}

func (cs *ContractSet) parseBlock(file string, line0 int, body string) {
	lines := strings.Split(body, "\n")
	// group into logical clauses
	type item struct {
		text string
		line int
	}
	var items []item
	for i, ln := range lines {
		t := strings.TrimSpace(ln)
		if t == "" || strings.HasPrefix(t, "//") {
			continue
		}
		if len(items) == 0 || clauseHead.MatchString(t) || strings.HasPrefix(t, "func ") || strings.HasPrefix(t, "spec ") {
			items = append(items, item{t, line0 + i})
		} else {
			items[len(items)-1].text += " " + t
		}
	}
	if len(items) == 0 {
		return
	}
	head := items[0].text
	if strings.HasPrefix(head, "spec ") {
		for _, it := range items {
			if !strings.HasPrefix(it.text, "spec ") {
				cs.errf(file, it.line, "unexpected clause in spec block: %s", it.text)
				continue
			}
			rest := strings.TrimPrefix(it.text, "spec ")
			eq := strings.Index(rest, "=")
			op := strings.Index(rest, "(")
			cp := strings.Index(rest, ")")
			if eq < 0 || op < 0 || cp < 0 || cp > eq {
				cs.errf(file, it.line, "malformed spec function")
				continue
			}
			// find the '=' after the closing parenthesis of the parameter list
			eq = cp + strings.Index(rest[cp:], "=")
			name := strings.TrimSpace(rest[:op])
			var params []string
			for _, p := range strings.Split(rest[op+1:cp], ",") {
				p = strings.TrimSpace(p)
				if p != "" {
					params = append(params, strings.Fields(p)[0])
				}
			}
			src := strings.TrimSpace(rest[eq+1:])
			ex, err := parseSpecExpr(src)
			if err != nil {
				cs.errf(file, it.line, "spec %s: %v", name, err)
				continue
			}
			cs.specs[name] = &SpecFunc{Name: name, Params: params, Body: ex, Src: src}
		}
		return
	}
	if !strings.HasPrefix(head, "func ") {
		cs.errf(file, line0, "block must start with func or spec: %q", head)
		return
	}
	key := strings.Join(strings.Fields(head), " ")
	c := &Contract{Key: key, File: file, Line: items[0].line}
	n := 0
	for _, it := range items[1:] {
		t := it.text
		kw := clauseHead.FindString(t)
		rest := strings.TrimSpace(strings.TrimPrefix(t, kw))
		switch kw {
		case "tags":
			c.Tags = strings.Fields(strings.ReplaceAll(rest, ",", " "))
		case "safety":
			c.Safety = strings.Fields(strings.ReplaceAll(rest, ",", " "))
		case "trusted":
			c.Trusted = true
		case "noinline":
			c.NoInline = true
		case "inline":
			c.Inline = true
		case "writesto":
			for _, part := range splitTop(rest, ",") {
				part = strings.TrimSpace(part)
				if part == "" || part == "nothing" {
					c.WritesTo = append(c.WritesTo, &Clause{Kind: "writesto", Src: "nothing", File: file, Line: it.line})
					continue
				}
				role := "writer"
				for _, r := range []string{"hash", "reader", "writer"} {
					if strings.HasPrefix(part, r+" ") {
						role = r
						part = strings.TrimSpace(strings.TrimPrefix(part, r+" "))
					}
				}
				ex, err := parseSpecExpr(part)
				if err != nil {
					cs.errf(file, it.line, "%s: %v in %q", key, err, part)
					continue
				}
				c.WritesTo = append(c.WritesTo, &Clause{Kind: "writesto", Src: part, Expr: ex, File: file, Line: it.line, Label: role})
			}
		case "touches":
			for _, part := range splitTop(rest, ",") {
				part = strings.TrimSpace(part)
				if part == "" || part == "nothing" {
					c.Touches = append(c.Touches, &Clause{Kind: "touches", Src: "nothing", File: file, Line: it.line})
					continue
				}
				ex, err := parseSpecExpr(part)
				if err != nil {
					cs.errf(file, it.line, "%s: %v in %q", key, err, part)
					continue
				}
				c.Touches = append(c.Touches, &Clause{Kind: "touches", Src: part, Expr: ex, File: file, Line: it.line})
			}
		case "ghostdef":
			m := ghostDefRe.FindStringSubmatch(rest)
			if m == nil {
				cs.errf(file, it.line, "malformed ghostdef (ghostdef name(obj) = value when cond): %s", rest)
				continue
			}
			if _, ok := ghostSorts[m[1]]; !ok {
				cs.errf(file, it.line, "ghostdef: unknown ghost component %s", m[1])
				continue
			}
			gd := &GhostDef{Name: m[1], Src: rest, Line: it.line}
			var err1, err2, err3 error
			gd.Obj, err1 = parseSpecExpr(m[2])
			gd.Value, err2 = parseSpecExpr(m[3])
			gd.Cond, err3 = parseSpecExpr(m[4])
			if err1 != nil || err2 != nil || err3 != nil {
				cs.errf(file, it.line, "%s: cannot parse ghostdef %q", key, rest)
				continue
			}
			if !strings.Contains(m[4], "fresh(") {
				cs.errf(file, it.line, "%s: the condition of a ghostdef must require the object to be fresh", key)
				continue
			}
			c.GhostDefs = append(c.GhostDefs, gd)
		case "modifies":
			c.HasMods = true
			c.Modifies = append(c.Modifies, strings.Fields(strings.ReplaceAll(rest, ",", " "))...)
		case "requires", "ensures", "loop", "call":
			cl := &Clause{Kind: kw, File: file, Line: it.line}
			if kw == "call" {
				m := callSiteRe.FindStringSubmatch(rest)
				if m == nil {
					cs.errf(file, it.line, "malformed call clause (call Name#k assert|label|invariant ...): %s", rest)
					continue
				}
				cl.CallName = m[1]
				cl.CallOrd, _ = strconv.Atoi(m[2])
				cl.Kind = "call-" + m[3]
				rest = strings.TrimSpace(m[4])
				if m[3] == "label" {
					cl.Label = rest
					cl.Src = rest
					c.Calls = append(c.Calls, cl)
					continue
				}
			}
			if kw == "loop" {
				fs := strings.Fields(rest)
				if len(fs) < 3 {
					cs.errf(file, it.line, "malformed loop clause")
					continue
				}
				cl.Loop, _ = strconv.Atoi(fs[0])
				cl.Kind = fs[1]
				if cl.Kind != "invariant" && cl.Kind != "decreases" && cl.Kind != "backedge" {
					cs.errf(file, it.line, "loop clause must be invariant, decreases or backedge")
					continue
				}
				rest = strings.TrimSpace(strings.SplitN(rest, fs[1], 2)[1])
			}
			for {
				if m := labelRe.FindStringSubmatch(rest); m != nil && cl.Label == "" {
					cl.Label = m[1]
					rest = rest[len(m[0]):]
					continue
				}
				if m := tagsRe.FindStringSubmatch(rest); m != nil && cl.Tags == nil {
					cl.Tags = strings.Fields(strings.ReplaceAll(m[1], ",", " "))
					rest = rest[len(m[0]):]
					continue
				}
				break
			}
			cl.Src = rest
			ex, err := parseSpecExpr(rest)
			if err != nil {
				cs.errf(file, it.line, "%s: %v in %q", key, err, rest)
				continue
			}
			cl.Expr = ex
			n++
			cl.idx = n
			switch kw {
			case "requires":
				c.Requires = append(c.Requires, cl)
			case "ensures":
				c.Ensures = append(c.Ensures, cl)
			case "call":
				c.Calls = append(c.Calls, cl)
			default:
				c.Loops = append(c.Loops, cl)
			}
		default:
			cs.errf(file, it.line, "unknown clause: %s", t)
		}
	}
	if old, dup := cs.byKey[key]; dup {
		cs.errf(file, items[0].line, "duplicate contract for %s (first at %s:%d)", key, old.File, old.Line)
		return
	}
	cs.byKey[key] = c
}

// funcKey names a function the way contract blocks do.
func funcKey(fn *ssa.Function) string {
	if fn == nil {
		return "?"
	}
	if o := fn.Origin(); o != nil {
		fn = o
	}
	if p := fn.Parent(); p != nil {
		// closures: parent key + $n
		name := fn.Name()
		if i := strings.LastIndex(name, "$"); i >= 0 {
			return funcKey(p) + name[i:]
		}
		return funcKey(p) + "$" + name
	}
	if recv := fn.Signature.Recv(); recv != nil {
		t := recv.Type()
		star := ""
		if pt, ok := t.(*types.Pointer); ok {
			star = "*"
			t = pt.Elem()
		}
		tn := "?"
		if n, ok := t.(*types.Named); ok {
			tn = n.Obj().Name()
		}
		return fmt.Sprintf("func (%s%s).%s", star, tn, fn.Name())
	}
	return "func " + fn.Name()
}

// extKey names a function outside the verified packages.
func extKey(fn *ssa.Function) string {
	if recv := fn.Signature.Recv(); recv != nil {
		t := recv.Type()
		star := ""
		if pt, ok := t.(*types.Pointer); ok {
			star = "*"
			t = pt.Elem()
		}
		if n, ok := t.(*types.Named); ok && n.Obj().Pkg() != nil {
			return fmt.Sprintf("func (%s%s.%s).%s", star, n.Obj().Pkg().Path(), n.Obj().Name(), fn.Name())
		}
		return fmt.Sprintf("func (%s%s).%s", star, t.String(), fn.Name())
	}
	if fn.Pkg != nil {
		return "func " + fn.Pkg.Pkg.Path() + "." + fn.Name()
	}
	return "func " + fn.String()
}

// ---------- evaluation ----------

type TV struct {
	V Val
	T types.Type
}

type Env struct {
	vars  map[string]TV
	cells map[string]bool // name is bound to a pointer to its storage cell (captured variable)
	heap  *Heap
	old   *Heap
	oldV  map[string]TV // values of names in the pre-state (for old(x) of locals), optional
	pkg   *types.Package
	bound map[string]bool
	depth int
	water string // allocation watermark fresh() is relative to ("pre" at function entry)
	headEnv *Env // state at the loop head (for athead)
	labels  map[string]*Env // states captured by `call ... label L` clauses (for at(L, e))
}

func (env *Env) with(name string, tv TV) *Env {
	n := *env
	n.vars = map[string]TV{}
	for k, v := range env.vars {
		n.vars[k] = v
	}
	n.vars[name] = tv
	return &n
}

var tInt = types.Typ[types.Int]
var tBool = types.Typ[types.Bool]
var tUint64 = types.Typ[types.Uint64]

func (e *Engine) specErr(format string, a ...interface{}) {
	msg := fmt.Sprintf(format, a...)
	if e.specCtx != "" && strings.HasPrefix(msg, "unknown name ") {
		// a loop or call-site clause names a local the code no longer has (renamed, removed): the clause is stale. Its own
		// obligations are not judged (they carry the marker constant); everything else is checked as usual.
		for _, s := range e.stale {
			if s == msg {
				return
			}
		}
		e.stale = append(e.stale, msg)
		return
	}
	e.specErrs = append(e.specErrs, msg)
}

func (e *Engine) evalBool(env *Env, x ast.Expr) string {
	v, _ := e.eval(env, x)
	if s, ok := v.(Sc); ok {
		return s.T
	}
	e.specErr("expression is not boolean: %s", exprString(x))
	return "true"
}

// conjuncts splits a boolean specification expression into its top-level conjuncts, looking through
// parentheses and through calls of specification functions, so that every conjunct becomes an obligation
// of its own with a readable label.
func (e *Engine) conjuncts(env *Env, x ast.Expr, prefix string) (terms []string, labels []string) {
	switch n := x.(type) {
	case *ast.ParenExpr:
		return e.conjuncts(env, n.X, prefix)
	case *ast.BinaryExpr:
		if n.Op == token.LAND {
			t1, l1 := e.conjuncts(env, n.X, prefix)
			t2, l2 := e.conjuncts(env, n.Y, prefix)
			return append(t1, t2...), append(l1, l2...)
		}
	case *ast.CallExpr:
		if id, ok := n.Fun.(*ast.Ident); ok {
			if id.Name == "imp" && len(n.Args) == 2 {
				// a ==> (b && c) splits into a ==> b, a ==> c
				g := e.evalBool(env, n.Args[0])
				ts, ls := e.conjuncts(env, n.Args[1], prefix)
				if len(ts) > 1 {
					gs := exprString(n.Args[0])
					for i := range ts {
						ts[i] = imp(g, ts[i])
						ls[i] = gs + " ==> " + ls[i]
					}
					return ts, ls
				}
			}
			if sf, ok := e.w.specFunc(id.Name); ok && len(sf.Params) == len(n.Args) && env.depth < 20 {
				inner := *env
				inner.vars = map[string]TV{}
				inner.cells = nil
				inner.depth = env.depth + 1
				for i, p := range sf.Params {
					v, t := e.eval(env, n.Args[i])
					inner.vars[p] = TV{v, t}
				}
				return e.conjuncts(&inner, sf.Body, prefix+id.Name+": ")
			}
		}
	}
	s := strings.Join(strings.Fields(exprString(x)), " ")
	s = strings.ReplaceAll(s, "imp(", "(")
	if len(s) > 90 {
		s = s[:90]
	}
	return []string{e.evalBool(env, x)}, []string{prefix + s}
}

func exprString(x ast.Expr) string {
	var b strings.Builder
	printerFprint(&b, x)
	return b.String()
}

func (e *Engine) evalInt(env *Env, x ast.Expr) string {
	v, _ := e.eval(env, x)
	return e.scalar(v)
}

func derefType(t types.Type) types.Type {
	if p, ok := under(t).(*types.Pointer); ok {
		return p.Elem()
	}
	return t
}

func (e *Engine) eval(env *Env, x ast.Expr) (Val, types.Type) {
	switch n := x.(type) {
	case *ast.ParenExpr:
		return e.eval(env, n.X)
	case *ast.BasicLit:
		switch n.Kind {
		case token.INT:
			v := constant.MakeFromLiteral(n.Value, token.INT, 0)
			return Sc{v.ExactString()}, types.Typ[types.UntypedInt]
		case token.STRING:
			s, _ := strconv.Unquote(n.Value)
			return Sc{e.strLit(s)}, types.Typ[types.String]
		case token.CHAR:
			v := constant.MakeFromLiteral(n.Value, token.CHAR, 0)
			return Sc{v.ExactString()}, types.Typ[types.UntypedInt]
		}
	case *ast.Ident:
		switch n.Name {
		case "true", "false":
			return Sc{n.Name}, tBool
		case "nil":
			return Sc{"0"}, types.Typ[types.UntypedNil]
		}
		if tv, ok := env.vars[n.Name]; ok {
			if env.cells[n.Name] {
				if p, isP := tv.V.(PtrV); isP {
					return e.loadRaw(env.heap, p.L), p.L.T
				}
			}
			return tv.V, tv.T
		}
		if env.pkg != nil {
			if obj := env.pkg.Scope().Lookup(n.Name); obj != nil {
				if c, ok := obj.(*types.Const); ok {
					return constToVal(e, c.Val(), c.Type()), c.Type()
				}
				if v, ok := obj.(*types.Var); ok {
					return e.specGlobal(env, v), v.Type()
				}
			}
		}
		e.specErr("unknown name %s", n.Name)
		return Sc{"specerr!"}, tInt // a marker constant: obligations mentioning it are not what the contract meant (see check.go)
	case *ast.StarExpr:
		v, t := e.eval(env, n.X)
		if p, ok := v.(PtrV); ok {
			return e.loadRaw(env.heap, p.L), p.L.T
		}
		e.specErr("deref of non-pointer %s", exprString(n.X))
		return v, t
	case *ast.UnaryExpr:
		v, t := e.eval(env, n.X)
		switch n.Op {
		case token.NOT:
			return Sc{not(e.scalar(v))}, tBool
		case token.SUB:
			return Sc{"(- " + e.scalar(v) + ")"}, t
		case token.AND:
			return v, t
		}
	case *ast.BinaryExpr:
		return e.evalBinary(env, n)
	case *ast.SelectorExpr:
		if id, ok := n.X.(*ast.Ident); ok {
			if _, isVar := env.vars[id.Name]; !isVar && env.pkg != nil {
				// package-qualified constant (math.MaxUint64 ...)
				for _, imp := range env.pkg.Imports() {
					if imp.Name() == id.Name {
						if obj := imp.Scope().Lookup(n.Sel.Name); obj != nil {
							if c, ok := obj.(*types.Const); ok {
								return constToVal(e, c.Val(), c.Type()), c.Type()
							}
							if v, ok := obj.(*types.Var); ok {
								return e.specGlobal(env, v), v.Type()
							}
						}
					}
				}
			}
		}
		v, t := e.eval(env, n.X)
		return e.selectField(env, v, t, n.Sel.Name, x)
	case *ast.IndexExpr:
		v, t := e.eval(env, n.X)
		iv, _ := e.eval(env, n.Index)
		idx := e.scalar(iv)
		switch xv := v.(type) {
		case SliceV:
			et := under(t).(*types.Slice).Elem()
			return e.loadRaw(env.heap, &Loc{Kind: LElem, Base: xv.B, Index: addT(xv.O, idx), T: et}), et
		case Sc:
			if isStr(t) {
				return Sc{fmt.Sprintf("(sat %s %s)", xv.T, idx)}, types.Typ[types.Uint8]
			}
			if mt, ok := under(t).(*types.Map); ok {
				dom, val, _, _, _, ok := e.mapComps(env.heap, t)
				if ok {
					// Go semantics: a missing key (or a nil map) yields the zero value
					zero := e.scalar(e.zero(mt.Elem()))
					r := fmt.Sprintf("(ite (and (not (= %s 0)) (select (select %s %s) %s)) (select (select %s %s) %s) %s)", xv.T, dom, xv.T, idx, val, xv.T, idx, zero)
					if p, isP := under(mt.Elem()).(*types.Pointer); isP {
						return PtrV{&Loc{Kind: LObj, Ref: r, T: p.Elem()}}, mt.Elem()
					}
					return Sc{r}, mt.Elem()
				}
			}
		}
		e.specErr("unsupported index expression %s", exprString(x))
		return Sc{"0"}, tInt
	case *ast.SliceExpr:
		v, t := e.eval(env, n.X)
		if xv, ok := v.(SliceV); ok {
			lo, hi := "0", xv.L
			if n.Low != nil {
				lo = e.evalInt(env, n.Low)
			}
			if n.High != nil {
				hi = e.evalInt(env, n.High)
			}
			return SliceV{xv.B, addT(xv.O, lo), fmt.Sprintf("(- %s %s)", hi, lo), fmt.Sprintf("(- %s %s)", xv.C, lo)}, t
		}
		e.specErr("unsupported slice expression %s", exprString(x))
		return v, t
	case *ast.CallExpr:
		return e.evalCall(env, n)
	}
	e.specErr("unsupported specification expression %s", exprString(x))
	return Sc{"0"}, tInt
}

func constToVal(e *Engine, v constant.Value, t types.Type) Val {
	switch v.Kind() {
	case constant.Bool:
		if constant.BoolVal(v) {
			return Sc{"true"}
		}
		return Sc{"false"}
	case constant.Int:
		s := v.ExactString()
		if strings.HasPrefix(s, "-") {
			return Sc{"(- " + s[1:] + ")"}
		}
		return Sc{s}
	case constant.String:
		return Sc{e.strLit(constant.StringVal(v))}
	}
	return Sc{e.fresh("const", "Int")}
}

func (e *Engine) specGlobal(env *Env, v *types.Var) Val {
	// same naming as globalLoad
	name := "gv." + v.Pkg().Name() + "." + v.Name()
	t := v.Type()
	switch under(t).(type) {
	case *types.Slice:
		return SliceV{e.global(name+".b", "Int"), "0", e.global(name+".l", "Int"), e.global(name+".c", "Int")}
	}
	so := sortOf(t)
	if so == "" {
		so = "Int"
	}
	g := e.global(name, so)
	if p, ok := under(t).(*types.Pointer); ok {
		return PtrV{&Loc{Kind: LObj, Ref: g, T: p.Elem()}}
	}
	return Sc{g}
}

func (e *Engine) selectField(env *Env, v Val, t types.Type, name string, x ast.Expr) (Val, types.Type) {
	switch xv := v.(type) {
	case PtrV:
		st, ok := under(xv.L.T).(*types.Struct)
		if !ok {
			// pointer to pointer? auto-deref once
			if _, isP := under(xv.L.T).(*types.Pointer); isP {
				inner := e.loadRaw(env.heap, xv.L)
				return e.selectField(env, inner, xv.L.T, name, x)
			}
			break
		}
		for i := 0; i < st.NumFields(); i++ {
			if st.Field(i).Name() == name {
				fl := e.fieldLoc(xv.L, i)
				if _, isStruct := under(fl.T).(*types.Struct); isStruct {
					return PtrV{fl}, types.NewPointer(fl.T) // nested struct: keep as location
				}
				return e.loadRaw(env.heap, fl), fl.T
			}
		}
	case StructV:
		st := under(t).(*types.Struct)
		for i := 0; i < st.NumFields(); i++ {
			if st.Field(i).Name() == name {
				return xv.F[i], st.Field(i).Type()
			}
		}
	}
	e.specErr("cannot select field %s in %s", name, exprString(x))
	return Sc{"0"}, tInt
}

func (e *Engine) evalBinary(env *Env, n *ast.BinaryExpr) (Val, types.Type) {
	switch n.Op {
	case token.LAND:
		return Sc{and(e.evalBool(env, n.X), e.evalBool(env, n.Y))}, tBool
	case token.LOR:
		return Sc{or(e.evalBool(env, n.X), e.evalBool(env, n.Y))}, tBool
	}
	xv, xt := e.eval(env, n.X)
	yv, _ := e.eval(env, n.Y)
	sx := func(v Val) string {
		if s, ok := v.(SliceV); ok {
			return s.B
		}
		return e.scalar(v)
	}
	a, b := sx(xv), sx(yv)
	switch n.Op {
	case token.EQL:
		return Sc{fmt.Sprintf("(= %s %s)", a, b)}, tBool
	case token.NEQ:
		return Sc{fmt.Sprintf("(not (= %s %s))", a, b)}, tBool
	case token.LSS:
		return Sc{fmt.Sprintf("(< %s %s)", a, b)}, tBool
	case token.LEQ:
		return Sc{fmt.Sprintf("(<= %s %s)", a, b)}, tBool
	case token.GTR:
		return Sc{fmt.Sprintf("(> %s %s)", a, b)}, tBool
	case token.GEQ:
		return Sc{fmt.Sprintf("(>= %s %s)", a, b)}, tBool
	case token.ADD:
		return Sc{fmt.Sprintf("(+ %s %s)", a, b)}, xt
	case token.SUB:
		return Sc{fmt.Sprintf("(- %s %s)", a, b)}, xt
	case token.MUL:
		return Sc{fmt.Sprintf("(* %s %s)", a, b)}, xt
	case token.QUO:
		return Sc{fmt.Sprintf("(div %s %s)", a, b)}, xt
	case token.REM:
		return Sc{fmt.Sprintf("(mod %s %s)", a, b)}, xt
	}
	e.specErr("unsupported operator %s", n.Op)
	return Sc{"0"}, tInt
}

func (e *Engine) evalCall(env *Env, n *ast.CallExpr) (Val, types.Type) {
	fname := ""
	if id, ok := n.Fun.(*ast.Ident); ok {
		fname = id.Name
	}
	arg := func(i int) (Val, types.Type) { return e.eval(env, n.Args[i]) }
	argS := func(i int) string { v, _ := arg(i); return e.scalar(v) }
	need := func(k int) bool {
		if len(n.Args) != k {
			e.specErr("%s expects %d arguments", fname, k)
			return false
		}
		return true
	}
	switch fname {
	case "imp":
		if !need(2) {
			return Sc{"true"}, tBool
		}
		return Sc{imp(e.evalBool(env, n.Args[0]), e.evalBool(env, n.Args[1]))}, tBool
	case "old":
		if !need(1) {
			return Sc{"0"}, tInt
		}
		o := *env
		o.heap = env.old
		if env.oldV != nil {
			o.vars = map[string]TV{}
			for k, v := range env.vars {
				o.vars[k] = v
			}
			for k, v := range env.oldV {
				o.vars[k] = v
			}
		}
		return e.eval(&o, n.Args[0])
	case "athead": // value of an expression at the head of the enclosing loop iteration (backedge clauses)
		if !need(1) {
			return Sc{"0"}, tInt
		}
		if env.headEnv == nil {
			e.specErr("athead used outside a backedge clause")
			return Sc{"0"}, tInt
		}
		he := env.headEnv
		if len(env.bound) > 0 {
			// quantified variables of the enclosing clause stay visible
			for name := range env.bound {
				he = he.with(name, env.vars[name])
			}
		}
		return e.eval(he, n.Args[0])
	case "at": // at(L, e): value of e in the state captured by the call-site clause `label L`
		if !need(2) {
			return Sc{"0"}, tInt
		}
		id, ok := n.Args[0].(*ast.Ident)
		if !ok {
			e.specErr("at: first argument must be a label")
			return Sc{"0"}, tInt
		}
		le := env.labels[id.Name]
		if le == nil {
			e.specErr("at: label %s was not reached before this point", id.Name)
			return Sc{"0"}, tInt
		}
		for name := range env.bound {
			le = le.with(name, env.vars[name]) // quantified variables of the enclosing clause stay visible
		}
		return e.eval(le, n.Args[1])
	case "streamByte": // streamByte(r, i): the byte source r delivers at absolute position i of its current stream
		if !need(2) {
			return Sc{"0"}, tInt
		}
		gen := e.comp(env.heap, "G.rd_gen", "Int", false)
		r := argS(0)
		return Sc{fmt.Sprintf("(rdbyte %s (select %s %s) %s)", r, gen, r, argS(1))}, types.Typ[types.Uint8]
	case "faulted": // faulted(): some source read so far returned an error other than EOF / unexpected EOF
		flt := e.comp(env.heap, "G.rd_fault", "Bool", false)
		return Sc{fmt.Sprintf("(select %s 0)", flt)}, tBool
	case "crcOfBytes": // crcOfBytes(s): CRC-32 (IEEE) of the current contents of byte slice s
		if !need(1) {
			return Sc{"0"}, tInt
		}
		v, _ := arg(0)
		sv, ok := v.(SliceV)
		if !ok {
			e.specErr("crcOfBytes: argument must be a byte slice")
			return Sc{"0"}, tInt
		}
		arr := e.comp(env.heap, "E.uint8", "Int", true)
		return Sc{fmt.Sprintf("(crcarr (select %s %s) %s %s)", arr, sv.B, sv.O, sv.L)}, types.Typ[types.Uint32]
	case "slid": // slid(s): identity of the byte range a slice designates (backing array, offset, length)
		if !need(1) {
			return Sc{"0"}, tInt
		}
		v, _ := arg(0)
		sv, ok := v.(SliceV)
		if !ok {
			e.specErr("slid: argument must be a slice")
			return Sc{"0"}, tInt
		}
		e.useCRC = true
		return Sc{fmt.Sprintf("(slid %s %s %s)", sv.B, sv.O, sv.L)}, tInt
	case "crcsum": // crcsum(h, n): Sum32 of hash object h after absorbing n bytes since its creation or last reset
		if !need(2) {
			return Sc{"0"}, tInt
		}
		e.useCRC = true
		h, cnt := argS(0), argS(1)
		return Sc{fmt.Sprintf("(ite (= %s 0) 0 (crcsum %s %s))", cnt, h, cnt)}, types.Typ[types.Uint32]
	case "len", "cap":
		if !need(1) {
			return Sc{"0"}, tInt
		}
		v, t := arg(0)
		switch xv := v.(type) {
		case SliceV:
			if fname == "len" {
				return Sc{xv.L}, tInt
			}
			return Sc{xv.C}, tInt
		case Sc:
			if isStr(t) {
				return Sc{fmt.Sprintf("(slen %s)", xv.T)}, tInt
			}
			if _, ok := under(t).(*types.Map); ok {
				if _, _, card, _, _, ok := e.mapComps(env.heap, t); ok {
					return Sc{fmt.Sprintf("(select %s %s)", card, xv.T)}, tInt
				}
			}
		}
		e.specErr("len/cap of unsupported value %s", exprString(n.Args[0]))
		return Sc{"0"}, tInt
	case "forall", "exists":
		if len(n.Args) != 4 && len(n.Args) != 2 {
			e.specErr("%s expects (i, lo, hi, body) or (i, body)", fname)
			return Sc{"true"}, tBool
		}
		id, ok := n.Args[0].(*ast.Ident)
		if !ok {
			e.specErr("%s: first argument must be a variable name", fname)
			return Sc{"true"}, tBool
		}
		e.n++
		bv := q(fmt.Sprintf("%s?%d", id.Name, e.n))
		inner := env.with(id.Name, TV{Sc{bv}, tInt})
		inner.cells = nil
		nb := map[string]bool{id.Name: true}
		for k := range env.bound {
			nb[k] = true
		}
		inner.bound = nb
		var body string
		if len(n.Args) == 4 {
			lo, hi := e.evalInt(env, n.Args[1]), e.evalInt(env, n.Args[2])
			rng := fmt.Sprintf("(and (<= %s %s) (< %s %s))", lo, bv, bv, hi)
			b := e.evalBool(inner, n.Args[3])
			if fname == "forall" {
				body = fmt.Sprintf("(=> %s %s)", rng, b)
			} else {
				body = fmt.Sprintf("(and %s %s)", rng, b)
			}
		} else {
			body = e.evalBool(inner, n.Args[1])
		}
		e.useQuant = true
		// Re-parametrise by the absolute index of the slice the variable indexes most often: with j = off + k the body
		// mentions (select row j) instead of (select row (+ off k)), which e-matching can instantiate reliably.
		if off := dominantOffset(body, bv); off != "" {
			jv := q(fmt.Sprintf("%s@%d", id.Name, e.n))
			nb := strings.ReplaceAll(body, "(+ "+off+" "+bv+")", jv)
			nb = strings.ReplaceAll(nb, bv, "(- "+jv+" "+off+")")
			return Sc{fmt.Sprintf("(%s ((%s Int)) %s)", fname, jv, nb)}, tBool
		}
		return Sc{fmt.Sprintf("(%s ((%s Int)) %s)", fname, bv, body)}, tBool
	case "ite":
		if !need(3) {
			return Sc{"0"}, tInt
		}
		c := e.evalBool(env, n.Args[0])
		a, t := arg(1)
		b, _ := arg(2)
		return Sc{fmt.Sprintf("(ite %s %s %s)", c, e.scalar(a), e.scalar(b))}, t
	case "umin", "umax":
		if !need(2) {
			return Sc{"0"}, tInt
		}
		a, b := argS(0), argS(1)
		op := "<="
		if fname == "umax" {
			op = ">="
		}
		return Sc{fmt.Sprintf("(ite (%s %s %s) %s %s)", op, a, b, a, b)}, tUint64
	case "in": // in(m, k): key k present in map m
		if !need(2) {
			return Sc{"false"}, tBool
		}
		mv, mt := arg(0)
		k := argS(1)
		if _, ok := under(mt).(*types.Map); ok {
			if dom, _, _, _, _, ok := e.mapComps(env.heap, mt); ok {
				m := e.scalar(mv)
				return Sc{fmt.Sprintf("(and (not (= %s 0)) (select (select %s %s) %s))", m, dom, m, k)}, tBool
			}
		}
		e.specErr("in: first argument must be a map")
		return Sc{"false"}, tBool
	case "seen": // seen(m, k): the range loop in progress over map m has already delivered key k (all keys of m once it has ended)
		if !need(2) {
			return Sc{"false"}, tBool
		}
		mv, mt := arg(0)
		k := argS(1)
		if _, ok := under(mt).(*types.Map); ok {
			if _, _, _, ks, _, ok := e.mapComps(env.heap, mt); ok {
				g := "seen"
				if ks == "Str" {
					g = "seen_s"
				}
				return Sc{fmt.Sprintf("(select (select %s %s) %s)", e.ghost(env.heap, g), e.scalar(mv), k)}, tBool
			}
		}
		e.specErr("seen: first argument must be a map")
		return Sc{"false"}, tBool
	case "strle": // the total order sort.Strings sorts by
		if !need(2) {
			return Sc{"true"}, tBool
		}
		return Sc{fmt.Sprintf("(strle %s %s)", argS(0), argS(1))}, tBool
	case "isEOF", "isUEOF", "isCRC":
		if !need(1) {
			return Sc{"false"}, tBool
		}
		return Sc{fmt.Sprintf("(%s %s)", fname, argS(0))}, tBool
	case "fresh": // fresh(p): p was allocated during this call
		if !need(1) {
			return Sc{"false"}, tBool
		}
		v, _ := arg(0)
		wm := env.water
		if wm == "" {
			wm = "pre"
		}
		return Sc{fmt.Sprintf("(> %s %s)", sliceOrScalar(e, v), wm)}, tBool
	case "preexisting":
		if !need(1) {
			return Sc{"false"}, tBool
		}
		v, _ := arg(0)
		return Sc{fmt.Sprintf("(<= %s pre)", sliceOrScalar(e, v))}, tBool
	case "base": // backing array identity of a slice
		if !need(1) {
			return Sc{"0"}, tInt
		}
		v, _ := arg(0)
		return Sc{sliceOrScalar(e, v)}, tInt
	case "off":
		if !need(1) {
			return Sc{"0"}, tInt
		}
		v, _ := arg(0)
		if s, ok := v.(SliceV); ok {
			return Sc{s.O}, tInt
		}
		return Sc{"0"}, tInt
	case "iface": // iface(p): the interface value wrapping pointer p (dynamic type = static type of p)
		if !need(1) {
			return Sc{"0"}, tInt
		}
		v, t := arg(0)
		tag := e.tagOf(t)
		r := fmt.Sprintf("(mkiface %d %s)", tag, e.scalar(v))
		return Sc{r}, types.NewInterfaceType(nil, nil)
	case "ghost": // ghost(name, x): ghost component name at object x
		if !need(2) {
			return Sc{"0"}, tInt
		}
		id, ok := n.Args[0].(*ast.Ident)
		if !ok {
			e.specErr("ghost: first argument must be a component name")
			return Sc{"0"}, tInt
		}
		gs, ok := ghostSorts[id.Name]
		if !ok {
			e.specErr("unknown ghost component %s", id.Name)
			return Sc{"0"}, tInt
		}
		arr := e.comp(env.heap, "G."+id.Name, gs, false)
		t := types.Type(tInt)
		if gs == "Bool" {
			t = tBool
		}
		return Sc{fmt.Sprintf("(select %s %s)", arr, argS(1))}, t
	case "res": // the object an io.Writer/io.Reader value finally stands for (ghost, see DESIGN §3)
		if !need(1) {
			return Sc{"0"}, tInt
		}
		e.useRes = true
		return Sc{fmt.Sprintf("(res %s)", argS(0))}, tInt
	case "crc32of": // crc32of(stream, lo, hi): CRC-32 of bytes [lo,hi) of ghost stream
		if !need(3) {
			return Sc{"0"}, tInt
		}
		e.useCRC = true
		return Sc{fmt.Sprintf("(crcrange %s %s %s)", argS(0), argS(1), argS(2))}, types.Typ[types.Uint32]
	case "le16at", "le32at", "le64at": // little-endian word at offset off of byte slice s
		if !need(2) {
			return Sc{"0"}, tInt
		}
		v, _ := arg(0)
		sv, ok := v.(SliceV)
		if !ok {
			e.specErr("%s: first argument must be a byte slice", fname)
			return Sc{"0"}, tInt
		}
		off := argS(1)
		k := map[string]int{"le16at": 2, "le32at": 4, "le64at": 8}[fname]
		arr := e.comp(env.heap, "E.uint8", "Int", true)
		var bs []string
		for i := 0; i < k; i++ {
			bs = append(bs, fmt.Sprintf("(select (select %s %s) (+ %s %s %d))", arr, sv.B, sv.O, off, i))
		}
		e.useLE = true
		return Sc{fmt.Sprintf("(le%d %s)", k*8, strings.Join(bs, " "))}, tUint64
	case "wrap64":
		if !need(1) {
			return Sc{"0"}, tInt
		}
		return Sc{wrapFull(tUint64, argS(0))}, tUint64
	}
	// conversions
	if fname != "" {
		if bt, ok := basicByName[fname]; ok && len(n.Args) == 1 {
			v, _ := arg(0)
			if isInt(bt) {
				return Sc{wrapFull(bt, e.scalar(v))}, bt
			}
			return v, bt
		}
		if sf, ok := e.w.specFunc(fname); ok {
			if len(sf.Params) != len(n.Args) {
				e.specErr("spec %s expects %d arguments", fname, len(sf.Params))
				return Sc{"true"}, tBool
			}
			if env.depth > 20 {
				e.specErr("spec function recursion too deep in %s", fname)
				return Sc{"true"}, tBool
			}
			inner := *env
			inner.vars = map[string]TV{}
			inner.cells = nil
			inner.depth = env.depth + 1
			for i, p := range sf.Params {
				v, t := arg(i)
				inner.vars[p] = TV{v, t}
			}
			return e.eval(&inner, sf.Body)
		}
		// named types of the package used as conversions (OpCode(x), TokenType(x), uint64 aliases)
		if env.pkg != nil {
			if obj := env.pkg.Scope().Lookup(fname); obj != nil {
				if tn, ok := obj.(*types.TypeName); ok && len(n.Args) == 1 {
					v, _ := arg(0)
					if isInt(tn.Type()) {
						return Sc{wrapFull(tn.Type(), e.scalar(v))}, tn.Type()
					}
					return v, tn.Type()
				}
			}
		}
	}
	e.specErr("unknown specification function %s", exprString(n.Fun))
	return Sc{"true"}, tBool
}

// dominantOffset finds the offset term T that occurs most often as "(+ T bv)" in body.
func dominantOffset(body, bv string) string {
	counts := map[string]int{}
	suffix := " " + bv + ")"
	for i := 0; ; {
		k := strings.Index(body[i:], suffix)
		if k < 0 {
			break
		}
		end := i + k // position of the space before bv
		// walk back to the matching "(+ "
		depth := 0
		start := -1
		for p := end - 1; p >= 0; p-- {
			c := body[p]
			if c == ')' {
				depth++
			} else if c == '(' {
				if depth == 0 {
					start = p
					break
				}
				depth--
			}
		}
		if start >= 0 && strings.HasPrefix(body[start:], "(+ ") {
			t := body[start+3 : end]
			// t must be a single term (balanced, no top-level space)
			d := 0
			single := true
			for _, c := range t {
				if c == '(' {
					d++
				} else if c == ')' {
					d--
				} else if c == ' ' && d == 0 {
					single = false
				}
			}
			if single && d == 0 && t != "" && !strings.Contains(t, bv) {
				counts[t]++
			}
		}
		i = end + len(suffix)
	}
	best, bn := "", 0
	for t, n := range counts {
		if n > bn || (n == bn && t < best) {
			best, bn = t, n
		}
	}
	return best
}

func sliceOrScalar(e *Engine, v Val) string {
	if s, ok := v.(SliceV); ok {
		return s.B
	}
	return e.scalar(v)
}

var basicByName = map[string]types.Type{
	"int": types.Typ[types.Int], "int8": types.Typ[types.Int8], "int16": types.Typ[types.Int16], "int32": types.Typ[types.Int32], "int64": types.Typ[types.Int64],
	"uint": types.Typ[types.Uint], "uint8": types.Typ[types.Uint8], "uint16": types.Typ[types.Uint16], "uint32": types.Typ[types.Uint32], "uint64": types.Typ[types.Uint64],
	"byte": types.Typ[types.Uint8], "string": types.Typ[types.String], "bool": types.Typ[types.Bool],
}

// ghostRole: which ghost components belong to which kind of object.
func ghostRole(role string) []string {
	switch role {
	case "hash":
		return []string{"crc_lo", "crc_hi", "crc_src", "crc_last"}
	case "reader":
		return []string{"rd_pos", "rd_left", "rd_eof", "rd_gen"}
	}
	return []string{"wr_failed", "wr_offered", "wr_calls", "wr_last"}
}

// ghostSorts lists the ghost heap components (element sort; all indexed by object reference).
var ghostSorts = map[string]string{
	"wr_failed":  "Bool", // some Write on this sink returned an error
	"wr_offered": "Int",  // bytes offered to this sink so far
	"wr_calls":   "Int",  // number of Write calls
	"rd_pos":     "Int",  // bytes consumed from this source so far
	"rd_left":    "Int",  // bytes the source can still deliver (>= 0)
	"rd_eof":     "Bool", // the source has reported end-of-file to a read
	"rd_gen":     "Int",  // generation of the source's stream (changes when the reader is reset onto other data)
	"rd_fault":   "Bool", // at key 0: some read returned an error that is neither EOF nor unexpected-EOF
	"crc_lo":     "Int",  // hash covers stream [crc_lo, crc_hi) of crc_src
	"crc_hi":     "Int",
	"crc_src":    "Int",
	"crc_last":   "Int", // identity (slid) of the byte range most recently absorbed by this hash
	"wr_last":    "Int", // identity (slid) of the byte range most recently offered to this sink
	"sb_len":     "Int", // length of a strings.Builder's contents
	"mark":       "Bool", // a provenance mark a function gives to an object it creates (ghostdef)
	"cb_calls":   "Int",  // number of calls made through this function value (callbacks handed to the library)
	"seen":       "(Array Int Bool)", // per map (Int-sorted keys): the keys the range loop in progress over it has delivered so far
	"seen_s":     "(Array Str Bool)", // the same for maps with string keys
}

// specEnv builds the environment for contract clauses of the frame's function: parameters, captured variables,
// and (at a loop head) the source-level locals.
func (f *frame) specEnv(h *Heap, at *ssa.BasicBlock, phis map[*ssa.Phi]Val) *Env {
	env := &Env{vars: map[string]TV{}, cells: map[string]bool{}, heap: h, old: f.entry, labels: f.labels}
	if f.fn.Pkg != nil {
		env.pkg = f.fn.Pkg.Pkg
	} else if o := f.fn.Origin(); o != nil && o.Pkg != nil {
		env.pkg = o.Pkg.Pkg
	}
	if env.pkg == nil && f.fn.Parent() != nil && f.fn.Parent().Pkg != nil {
		env.pkg = f.fn.Parent().Pkg.Pkg
	}
	for i, p := range f.fn.Params {
		env.vars[p.Name()] = TV{f.args[i], p.Type()}
	}
	for _, fv := range f.fn.FreeVars {
		env.vars[fv.Name()] = TV{f.vals[fv], fv.Type()}
		if _, isP := fv.Type().(*types.Pointer); isP {
			env.cells[fv.Name()] = true
		}
	}
	if at != nil {
		f.bindLocals(env, at, phis)
	}
	return env
}

// bindLocals resolves source-level local variable names at the head of a loop.
func (f *frame) bindLocals(env *Env, at *ssa.BasicBlock, phis map[*ssa.Phi]Val) {
	f.bindLocalsI(env, at, phis, false, nil)
}

// bindLocalsI: inclusive=true also takes the definitions made inside block at (used at the end of a block).
// body, when given, is the set of blocks of the enclosing loop: names defined anywhere in the iteration are
// visible (a clause that mentions a name of one switch case must guard on being in that case; the value of a
// name whose block was not executed is unconstrained, which can only make the clause harder to prove).
func (f *frame) bindLocalsI(env *Env, at *ssa.BasicBlock, phis map[*ssa.Phi]Val, inclusive bool, body map[*ssa.BasicBlock]bool) {
	type cand struct {
		v     ssa.Value
		addr  bool
		depth int
		idx   int
	}
	best := map[string]cand{}
	pendingT := map[string]types.Type{}
	domDepth := func(b *ssa.BasicBlock) int {
		d := 0
		for x := b; x != nil; x = x.Idom() {
			d++
		}
		return d
	}
	for _, b := range f.fn.Blocks {
		if body != nil && body[b] {
			// any executed block of the loop body
		} else if !(b.Dominates(at)) || (b == at && !inclusive) {
			continue
		}
		if _, reached := f.pcs[b]; !reached {
			if body != nil && body[b] {
				// a block of the iteration this path has not executed: remember the names it defines
				for _, ins := range b.Instrs {
					if dr, ok := ins.(*ssa.DebugRef); ok && !dr.IsAddr {
						if id, ok := dr.Expr.(*ast.Ident); ok {
							if vobj, isVar := dr.Object().(*types.Var); isVar && !vobj.IsField() {
								pendingT[id.Name] = dr.X.Type()
								if a := typeAlias(id.Name, dr.X.Type()); a != "" {
									pendingT[a] = dr.X.Type()
								}
							}
						}
					}
				}
			}
			continue
		}
		dd := domDepth(b)
		if body != nil && body[b] {
			dd = 1000000 + b.Index // later blocks of the iteration win
		}
		for i, ins := range b.Instrs {
			if ph, isPhi := ins.(*ssa.Phi); isPhi && ph.Comment != "" {
				if _, have := f.vals[ph]; have {
					c, had := best[ph.Comment]
					if !had || dd > c.depth || (dd == c.depth && i > c.idx) {
						best[ph.Comment] = cand{ph, false, dd, i}
					}
				}
				continue
			}
			dr, ok := ins.(*ssa.DebugRef)
			if !ok {
				continue
			}
			id, ok := dr.Expr.(*ast.Ident)
			if !ok {
				continue
			}
			if vobj, isVar := dr.Object().(*types.Var); !isVar || vobj.IsField() {
				continue // field names and non-variables are not locals
			}
			if _, have := f.vals[dr.X]; !have {
				if _, isC := dr.X.(*ssa.Const); !isC {
					if body != nil && body[b] && !dr.IsAddr {
						pendingT[id.Name] = dr.X.Type() // defined on another path of the iteration
						if a := typeAlias(id.Name, dr.X.Type()); a != "" {
							pendingT[a] = dr.X.Type()
						}
					}
					continue
				}
			}
			c, had := best[id.Name]
			if !had || dd > c.depth || (dd == c.depth && i > c.idx) {
				best[id.Name] = cand{dr.X, dr.IsAddr, dd, i}
			}
			// several variables of one name (one per switch case, say) are told apart by their type: idx_AttachmentIndex
			if !dr.IsAddr {
				t := dr.X.Type()
				if p, ok := t.(*types.Pointer); ok {
					t = p.Elem()
				}
				if n, ok := t.(*types.Named); ok {
					alias := id.Name + "_" + n.Obj().Name()
					c2, had2 := best[alias]
					if !had2 || dd > c2.depth || (dd == c2.depth && i > c2.idx) {
						best[alias] = cand{dr.X, false, dd, i}
					}
				}
			}
		}
	}
	env.oldV = map[string]TV{}
	for i, p := range f.fn.Params {
		env.oldV[p.Name()] = TV{f.args[i], p.Type()}
	}
	for name, c := range best {
		if c.addr {
			env.vars[name] = TV{f.get(c.v), c.v.Type()}
			env.cells[name] = true
		} else {
			env.vars[name] = TV{f.get(c.v), c.v.Type()}
			delete(env.cells, name)
		}
	}
	// names of the iteration that this path did not define: unconstrained values of their type
	for name, t := range pendingT {
		if _, ok := env.vars[name]; !ok {
			env.vars[name] = TV{f.e.havocVal(f.prefix+"undef."+name, t), t}
		}
	}
	// allocs named after variables (address-taken locals)
	for _, b := range f.fn.Blocks {
		for _, ins := range b.Instrs {
			if a, ok := ins.(*ssa.Alloc); ok && a.Comment != "" && !strings.Contains(a.Comment, " ") {
				if v, have := f.vals[a]; have {
					if _, exists := env.vars[a.Comment]; !exists {
						env.vars[a.Comment] = TV{v, a.Type()}
						env.cells[a.Comment] = true
					}
				}
			}
		}
	}
	// range loops: iter = number of completed iterations (the hidden index of go/ssa's lowering, plus one)
	for p, v := range phis {
		if p.Comment == "rangeindex" {
			env.vars["iter"] = TV{Sc{fmt.Sprintf("(+ %s 1)", f.e.scalar(v))}, tInt}
		}
	}
	// phis of the loop head win: they are the variables the loop changes
	var names []string
	byName := map[string]*ssa.Phi{}
	for p := range phis {
		if p.Comment != "" {
			names = append(names, p.Comment)
			byName[p.Comment] = p
		}
	}
	sort.Strings(names)
	for _, nme := range names {
		p := byName[nme]
		env.vars[nme] = TV{phis[p], p.Type()}
		delete(env.cells, nme)
	}
}

// bindAllocs makes the function's address-taken locals (allocation cells named after variables) visible.
func (f *frame) bindAllocs(env *Env) {
	for _, b := range f.fn.Blocks {
		for _, ins := range b.Instrs {
			if a, ok := ins.(*ssa.Alloc); ok && a.Comment != "" && !strings.Contains(a.Comment, " ") {
				if v, have := f.vals[a]; have {
					if _, exists := env.vars[a.Comment]; !exists {
						env.vars[a.Comment] = TV{v, a.Type()}
						if _, isStruct := under(a.Type().(*types.Pointer).Elem()).(*types.Struct); !isStruct {
							env.cells[a.Comment] = true
						}
					}
				}
			}
		}
	}
}

// resultEnv extends env with the function's results.
func resultEnv(env *Env, sig *types.Signature, rets []Val) {
	res := sig.Results()
	for i := 0; i < res.Len() && i < len(rets); i++ {
		r := res.At(i)
		tv := TV{rets[i], r.Type()}
		if r.Name() != "" && r.Name() != "_" {
			env.vars[r.Name()] = tv
		}
		env.vars[fmt.Sprintf("r%d", i)] = tv
		if res.Len() == 1 {
			env.vars["result"] = tv
		}
		if i == res.Len()-1 && isErrorType(r.Type()) {
			if _, taken := env.vars["err"]; !taken || r.Name() == "" {
				env.vars["err"] = tv
			}
		}
	}
}

func isErrorType(t types.Type) bool {
	n, ok := t.(*types.Named)
	return ok && n.Obj().Name() == "error" && n.Obj().Pkg() == nil
}

// typeAlias: name_TypeName for a variable of (pointer to) a named type.
func typeAlias(name string, t types.Type) string {
	if p, ok := t.(*types.Pointer); ok {
		t = p.Elem()
	}
	if n, ok := t.(*types.Named); ok {
		return name + "_" + n.Obj().Name()
	}
	return ""
}
