// govc check: the per-property check registered in MANIFEST.json.
package main

import (
	"encoding/json"
	"flag"
	"fmt"
	"os"
	"os/exec"
	"path/filepath"
	"regexp"
	"sort"
	"strings"
	"time"

	"golang.org/x/tools/go/ssa"
)

// PropSpec says which functions carry a property and which obligations of theirs are deliberately not claimed.
type PropSpec struct {
	Packages  []string            `json:"packages"`
	Units     []string            `json:"units"`     // regexps on "pkg funcKey"
	Exclude   []string            `json:"exclude"`   // regexps on "pkg funcKey" removed from Units
	Kinds     []string            `json:"kinds"`     // obligation kinds that count for this property (prefix match); empty = all
	Undecided map[string]string   `json:"undecided"` // regexp on obligation name -> reason (not claimed, never counted as proved)
	Closure   bool                `json:"closure"`   // also check every function of the verified packages statically reachable from the units
	Borrow    map[string][]string `json:"borrow"`    // obligation kind prefix -> tags of other properties whose obligations of that kind count here too
	Note      string              `json:"note"`
}

type KnownFindings struct {
	Findings []struct {
		Property   string `json:"property"`
		Obligation string `json:"obligation"` // exact obligation name
		What       string `json:"what"`
	} `json:"findings"`
	Fixed []string `json:"fixed"`
}

type Ledger struct {
	Property    string            `json:"property"`
	Functions   map[string]string `json:"functions"` // "pkg funcKey" -> "proved" | "partial"
	Obligations []string          `json:"obligations"`
	Hashes      map[string]string `json:"vc_hashes,omitempty"` // obligation -> hash of the condition that was discharged
}

func readJSON(path string, v interface{}) error {
	data, err := os.ReadFile(path)
	if err != nil {
		return err
	}
	return json.Unmarshal(data, v)
}

func matchAny(res []*regexp.Regexp, s string) bool {
	for _, r := range res {
		if r.MatchString(s) {
			return true
		}
	}
	return false
}

func compileAll(ps []string) []*regexp.Regexp {
	var out []*regexp.Regexp
	for _, p := range ps {
		out = append(out, regexp.MustCompile(p))
	}
	return out
}

func hasTag(o *Oblig, tag string) bool {
	for _, t := range o.Tags {
		if t == tag {
			return true
		}
	}
	return false
}

func repoClean() string {
	out, _ := exec.Command("git", "-C", repoDir, "status", "--porcelain", "--untracked-files=no").CombinedOutput()
	h, _ := exec.Command("git", "-C", repoDir, "rev-parse", "HEAD").CombinedOutput()
	return strings.TrimSpace(string(h)) + "|" + string(out)
}

func cmdCheck(args []string) {
	fs := flag.NewFlagSet("check", flag.ExitOnError)
	prop := fs.String("prop", "", "property id")
	tier := fs.String("tier", "quick", "quick|thorough")
	writeLedger := fs.Bool("write-ledger", false, "record the discharged obligations as the ledger (development only)")
	dump := fs.String("dump", "", "dump VCs")
	fs.Parse(args)
	if t := os.Getenv("VERIF_TIER"); t != "" && *tier == "quick" {
		*tier = t
	}
	seed := 0
	fmt.Sscan(os.Getenv("VERIF_SEED"), &seed)
	t0 := time.Now()
	var specs map[string]*PropSpec
	if err := readJSON(verifDir+"/specs/props.json", &specs); err != nil {
		fmt.Fprintln(os.Stderr, "govc: cannot read specs/props.json:", err)
		os.Exit(2)
	}
	spec := specs[*prop]
	if spec == nil {
		fmt.Fprintln(os.Stderr, "govc: unknown property", *prop)
		os.Exit(2)
	}
	before := repoClean()
	w := loadWorld(spec.Packages)
	loadSecs := time.Since(t0).Seconds()
	if errs := w.contractErrors(); len(errs) > 0 {
		for _, e := range errs {
			fmt.Println("CONTRACT ERROR:", e)
		}
		fmt.Println("TOOL ERROR: contract files do not parse")
		os.Exit(2)
	}
	unitRes := compileAll(spec.Units)
	exclRes := compileAll(spec.Exclude)
	var units []*UnitResult
	genT := time.Now()
	for _, fn := range w.funcs {
		key := w.pkgOf(fn).Pkg.Name() + " " + funcKey(fn)
		if !matchAny(unitRes, key) || matchAny(exclRes, key) {
			continue
		}
		if con := w.contractFor(fn); con != nil && con.Inline {
			continue // verified in the context of every caller
		}
		units = append(units, w.verifyUnit(fn, []string{*prop}))
	}
	if spec.Closure {
		// the property is about everything the units can run: add the functions they reach (static calls and closures)
		seen := map[*ssa.Function]bool{}
		var work []*ssa.Function
		for _, u := range units {
			seen[u.Fn] = true
			work = append(work, u.Fn)
		}
		// inline-marked functions are reached through their callers: still walk them
		for _, fn := range w.funcs {
			key := w.pkgOf(fn).Pkg.Name() + " " + funcKey(fn)
			if matchAny(unitRes, key) && !matchAny(exclRes, key) && !seen[fn] {
				seen[fn] = true
				work = append(work, fn)
			}
		}
		for len(work) > 0 {
			fn := work[len(work)-1]
			work = work[:len(work)-1]
			for _, b := range fn.Blocks {
				for _, ins := range b.Instrs {
					var callee *ssa.Function
					switch x := ins.(type) {
					case ssa.CallInstruction:
						callee = x.Common().StaticCallee()
					case *ssa.MakeClosure:
						callee, _ = x.Fn.(*ssa.Function)
					}
					if callee == nil || seen[callee] || !w.inScope(callee) || callee.Blocks == nil {
						continue
					}
					seen[callee] = true
					work = append(work, callee)
					if con := w.contractFor(callee); con != nil && con.Inline {
						continue
					}
					if matchAny(exclRes, w.pkgOf(callee).Pkg.Name()+" "+funcKey(callee)) {
						continue
					}
					units = append(units, w.verifyUnit(callee, []string{*prop}))
				}
			}
		}
	}
	genSecs := time.Since(genT).Seconds()
	kindOK := func(o *Oblig) bool {
		if len(spec.Kinds) == 0 {
			return true
		}
		for _, k := range spec.Kinds {
			if strings.HasPrefix(o.Kind, k) {
				return true
			}
		}
		return false
	}
	filter := func(o *Oblig) bool {
		if hasTag(o, *prop) && kindOK(o) {
			return true
		}
		for k, tags := range spec.Borrow {
			if strings.HasPrefix(o.Kind, k) {
				for _, t := range tags {
					if hasTag(o, t) {
						return true
					}
				}
			}
		}
		return false
	}
	timeout := 10
	thorough := *tier == "thorough"
	if thorough {
		timeout = 60
	}
	solveT := time.Now()
	// obligations deliberately not claimed are not attempted in the quick tier (they would only burn the time-outs)
	var undecRes []*regexp.Regexp
	for p := range spec.Undecided {
		undecRes = append(undecRes, regexp.MustCompile(p))
	}
	solveFilter := func(o *Oblig) bool {
		if !filter(o) {
			return false
		}
		if !thorough && matchAny(undecRes, o.name) {
			o.Status = "not-attempted"
			return false
		}
		return true
	}
	var ledger Ledger
	haveLedger := readJSON(fmt.Sprintf("%s/ledger/%s.json", verifDir, *prop), &ledger) == nil
	if haveLedger {
		knownHashes = ledger.Hashes // lets the solver stage skip the long retry for a condition identical to a discharged one
	}
	solveAll(units, solveFilter, timeout, thorough, *dump)
	solveSecs := time.Since(solveT).Seconds()

	var kf KnownFindings
	readJSON(verifDir+"/known_findings.json", &kf)
	known := map[string]string{}
	for _, f := range kf.Findings {
		if f.Property == *prop {
			known[f.Obligation] = f.What
		}
	}
	ledgerObs := map[string]bool{}
	for _, n := range ledger.Obligations {
		ledgerObs[n] = true
	}
	type undec struct {
		re     *regexp.Regexp
		reason string
	}
	var undecided []undec
	for p, r := range spec.Undecided {
		undecided = append(undecided, undec{regexp.MustCompile(p), r})
	}

	total, discharged := 0, 0
	bySolver := map[string]int{}
	var violations, knownHits, undecidedHits, newUndecided, toolErrors []string
	var samples []map[string]interface{}
	funcsUnder := []string{}
	inlined := map[string]int{}
	unmodelled := map[string]int{}
	outOfSubset := map[string]int{}
	trusted := map[string]int{}
	imprecise := map[string]int{}
	newLedger := Ledger{Property: *prop, Functions: map[string]string{}}
	solverTime := 0.0
	secsByFunc := map[string]float64{}
	var detachedClauses []string
	var deadReturns []string
	var identicalVC []string
	var staleClauses []string
	var suspectVacuity []string
	deadBaseline := map[string]int{}
	readJSON(verifDir+"/specs/dead_returns.json", &deadBaseline)
	exit := 0
	var slow []string
	const slowThreshold = 3.0
	for _, u := range units {
		ukey := u.Pkg + " " + u.Key
		funcsUnder = append(funcsUnder, ukey)
		for _, se := range u.SpecErrs {
			te := "specification error in " + ukey + ": " + se
			if !containsStr(toolErrors, te) {
				toolErrors = append(toolErrors, te)
			}
		}
		for _, se := range u.Stale {
			msg := fmt.Sprintf("%s: a loop or call-site clause no longer resolves (%s); its obligations are not judged", ukey, se)
			fmt.Println("STALE-CONTRACT:", msg)
			staleClauses = append(staleClauses, msg)
		}
		if u.Vacuous != "" {
			toolErrors = append(toolErrors, fmt.Sprintf("vacuity: the assumptions of %s are contradictory where it returns (%s): nothing proved about it counts", ukey, u.Vacuous))
		}
		for _, d := range u.DeadRets {
			deadReturns = append(deadReturns, ukey+" "+d)
		}
		if n := len(u.DeadRets); n > deadBaseline[ukey] {
			// more returns than the audited dead (defensive) ones are unreachable under the assumptions: either new dead code
			// or assumptions that contradict each other on some path. Reported, not counted as a violation.
			msg := fmt.Sprintf("%s: %d unreachable returns, %d audited as dead code (%s)", ukey, n, deadBaseline[ukey], strings.Join(u.DeadRets, " "))
			fmt.Println("SUSPECT-VACUITY:", msg)
			suspectVacuity = append(suspectVacuity, msg)
		}
		for _, d := range u.Detached {
			fmt.Println("DETACHED:", d)
			detachedClauses = append(detachedClauses, d)
		}
		for k, v := range u.Inlined {
			inlined[k] += v
		}
		for k, v := range u.Unmod {
			unmodelled[k] += v
		}
		for k, v := range u.Unsupp {
			outOfSubset[ukey+": "+k] += v
		}
		for k, v := range u.Trusted {
			trusted[k] += v
		}
		for k, v := range u.Imprecise {
			imprecise[k] += v
		}
		allOK := true
		for _, o := range u.Obs {
			if !filter(o) {
				continue
			}
			solverTime += o.Seconds
			secsByFunc[ukey] += o.Seconds
			isUndecided := ""
			for _, ud := range undecided {
				if ud.re.MatchString(o.name) {
					isUndecided = ud.reason
				}
			}
			if isUndecided != "" {
				// deliberately not claimed: reported, never counted; it does not make the rest of the function "partial"
				undecidedHits = append(undecidedHits, fmt.Sprintf("%s [%s] — %s", o.name, o.Status, isUndecided))
				continue
			}
			total++
			if o.Seconds > slowThreshold {
				slow = append(slow, fmt.Sprintf("%.1fs %s (%s)", o.Seconds, o.name, o.Solver))
			}
			if o.Status == "unknown" && haveLedger && o.VCHash != "" && ledger.Hashes[o.name] == o.VCHash {
				// no solver answered within its limit (a loaded machine), but the condition is character for character the
				// one the solvers discharged when the ledger was written: it is still valid
				o.Status, o.Solver = "unsat", "identical-vc(ledger)"
				identicalVC = append(identicalVC, o.name)
			}
			switch o.Status {
			case "unsat":
				discharged++
				bySolver[o.Solver]++
				newLedger.Obligations = append(newLedger.Obligations, o.name)
				if newLedger.Hashes == nil {
					newLedger.Hashes = map[string]string{}
				}
				newLedger.Hashes[o.name] = o.VCHash
				if len(samples) < 6 && (o.Kind == "post" || len(samples) < 3) {
					samples = append(samples, map[string]interface{}{"obligation": o.name, "source": fmt.Sprintf("%s:%d", shortFile(o.Pos.Filename), o.Pos.Line),
						"goal_smt": truncate(o.Cond, 400), "solver": o.Solver, "seconds": o.Seconds})
				}
				continue
			case "disagree":
				toolErrors = append(toolErrors, "solvers disagree on "+o.name+": "+o.Output)
				allOK = false
				continue
			}
			allOK = false
			if what, ok := knownMatch(known, o.name); ok {
				knownHits = append(knownHits, fmt.Sprintf("KNOWN-FINDING: property=%s %s — %s", *prop, o.name, what))
				total-- // reported as a known finding, not part of the proved claim
				continue
			}
			// undischarged and not known: a violation if this function was fully proved on the unchanged tree,
			// or if the counterexample replays on the real code
			replayPath, reproduced := w.replay(*prop, u, o)
			inLedger := haveLedger && (ledger.Functions[ukey] == "proved" || ledgerObs[o.name])
			if strings.HasPrefix(o.Kind, "frame:") && o.Cond == "false" {
				// a site the generator inspected and found in breach of a frame condition (global state, nondeterministic
				// source, emission in a map range, direct Read): decided, not merely undischarged, wherever it appears
				inLedger = true
			}
			switch {
			case reproduced:
				violations = append(violations, fmt.Sprintf("VIOLATION property=%s replay=%s", *prop, replayPath))
			case strings.Contains(o.Cond, "specerr!") || strings.Contains(o.PC, "specerr!"):
				// this clause no longer resolves against the code (a local it names was renamed or removed): what the generator
				// made of it is not the intended obligation, so a failure here decides nothing (obligations of the function's
				// other clauses are judged as usual). The
				// specification error itself is reported as a TOOL ERROR and the check exits 2 (inconclusive), not 1.
				newUndecided = append(newUndecided, fmt.Sprintf("UNDECIDED %s [%s] (the contract of %s does not resolve against the current code)", o.name, o.Status, ukey))
			case inLedger || !haveLedger:
				violations = append(violations, fmt.Sprintf("VIOLATION property=%s replay=%s no-failing-input-found", *prop, replayPath))
			default:
				newUndecided = append(newUndecided, fmt.Sprintf("UNDECIDED %s [%s] (function not in the ledger of proved functions)", o.name, o.Status))
			}
		}
		if allOK {
			newLedger.Functions[ukey] = "proved"
		} else {
			newLedger.Functions[ukey] = "partial"
		}
	}
	// vacuity guards
	if total == 0 {
		toolErrors = append(toolErrors, "no obligations were generated for this property")
	}
	if haveLedger {
		now := map[string]bool{}
		for _, u := range units {
			now[u.Pkg+" "+u.Key] = true
		}
		var detached []string
		for fn := range ledger.Functions {
			if !now[fn] {
				detached = append(detached, fn)
			}
		}
		sort.Strings(detached)
		for _, d := range detached {
			fmt.Printf("DETACHED: %s is no longer present; its callers were verified against what replaced it\n", d)
		}
		// a contract clause that silently produces nothing is a tool error
		have := map[string]bool{}
		for _, u := range units {
			for _, o := range u.Obs {
				have[funcKindKey(o)] = true
			}
		}
		lost := map[string]bool{}
		for _, name := range ledger.Obligations {
			parts := strings.SplitN(name, "/", 4)
			if len(parts) < 4 {
				continue
			}
			switch parts[2] {
			case "post", "inv-init", "inv-keep", "term":
				k := parts[0] + "/" + parts[1] + "/" + parts[2]
				if !have[k] && now[parts[0]+" func "+parts[1]] {
					lost[k] = true
				}
			}
		}
		for k := range lost {
			// e.g. a loop that moved into a helper: its invariants cannot attach any more. Not a violation and not an
			// error: the obligations that depended on them fail on their own if the property is affected.
			fmt.Printf("DETACHED: contract clauses of kind %s no longer attach to the code\n", k)
		}
	}
	// unused contracts (attached to nothing) are reported, not fatal
	if after := repoClean(); after != before {
		toolErrors = append(toolErrors, "the working tree of /repo changed during the check")
	}

	sort.Strings(violations)
	for _, k := range knownHits {
		fmt.Println(k)
	}
	for _, u := range newUndecided {
		fmt.Println(u)
	}
	for _, v := range violations {
		fmt.Println(v)
		exit = 1
	}
	for _, te := range toolErrors {
		fmt.Println("TOOL ERROR:", te)
		if exit == 0 {
			exit = 2
		}
	}
	wall := time.Since(t0).Seconds()
	fmt.Printf("property %s tier %s: %d functions, %d obligations, %d discharged, %d violations, %d known findings, %d not claimed; load %.1fs gen %.1fs solve %.1fs\n",
		*prop, *tier, len(units), total, discharged, len(violations), len(knownHits), len(undecidedHits), loadSecs, genSecs, solveSecs)

	if *writeLedger {
		sort.Strings(newLedger.Obligations)
		data, _ := json.MarshalIndent(newLedger, "", " ")
		os.MkdirAll(verifDir+"/ledger", 0o755)
		os.WriteFile(fmt.Sprintf("%s/ledger/%s.json", verifDir, *prop), data, 0o644)
	}
	// thorough tier: the must-fail corpus of this property — every deliberate property-breaking patch must be reported
	mutants := map[string]interface{}{}
	if thorough && os.Getenv("GOVC_REPO") == "" && os.Getenv("GOVC_NOMUTANTS") == "" {
		if _, err := os.Stat(fmt.Sprintf("%s/selftest/mutants/%s", verifDir, *prop)); err == nil {
			cmd := exec.Command(verifDir+"/tools/mutants.sh", *prop)
			out, _ := cmd.CombinedOutput()
			killed, survived, stale := 0, []string{}, 0
			for _, ln := range strings.Split(string(out), "\n") {
				switch {
				case strings.HasPrefix(ln, "KILLED"):
					killed++
				case strings.HasPrefix(ln, "SURVIVED"):
					survived = append(survived, strings.TrimSpace(strings.TrimPrefix(ln, "SURVIVED")))
				case strings.HasPrefix(ln, "STALE"), strings.Contains(ln, "DOES NOT"):
					stale++
				}
			}
			mutants = map[string]interface{}{"killed": killed, "survived": survived, "stale_or_not_building": stale, "total": killed + len(survived) + stale}
			fmt.Printf("must-fail corpus: %d of %d deliberate breaking changes reported, %d survived, %d stale\n", killed, killed+len(survived)+stale, len(survived), stale)
			for _, sv := range survived {
				fmt.Println("MUTANT-SURVIVED:", sv)
			}
		}
	}
	// evidence
	level := "proof"
	trustedBase := []string{"govc VC generator (go/ssa v0.29.0 lowering, Int-with-wrap semantics, component heap)", "SMT solvers z3 5.1.0, cvc5 1.0.3, z3 4.8.12",
		"le16/le32/le64/byteof inverse axioms (proved per run in QF_BV: `govc axioms`)"}
	for k, v := range trusted {
		trustedBase = append(trustedBase, fmt.Sprintf("native model of %s (used %d×)", k, v))
	}
	sort.Strings(trustedBase[3:])
	assumptions := []string{
		"A1 Go runtime: len<=cap<=2^48, allocation returns fresh memory; amd64 (int is 64 bit)",
		"A2 io.Reader/io.Writer/io.Seeker implementations honour their documented contracts",
		"A5 third-party and standard-library internals neither panic nor allocate unboundedly (zstd, lz4, io.ReadAll, io.Copy buffer)",
		"A7 user callbacks do not touch the library's internal state",
	}
	for k, v := range unmodelled {
		assumptions = append(assumptions, fmt.Sprintf("unmodelled call (results unconstrained, frame havoced): %s ×%d", k, v))
	}
	for k, v := range outOfSubset {
		assumptions = append(assumptions, fmt.Sprintf("out of subset: %s ×%d", k, v))
	}
	for k, v := range imprecise {
		assumptions = append(assumptions, fmt.Sprintf("imprecise operation (result range only): %s ×%d", k, v))
	}
	for _, u := range undecidedHits {
		assumptions = append(assumptions, "NOT CLAIMED: "+u)
	}
	sort.Strings(assumptions[4:])
	sort.Strings(funcsUnder)
	var inl []string
	for k, v := range inlined {
		inl = append(inl, fmt.Sprintf("%s ×%d", k, v))
	}
	sort.Strings(inl)
	ev := map[string]interface{}{
		"property_id": *prop, "tier": *tier, "seed": seed, "level": level, "wall_s": wall, "violations": len(violations),
		"coverage": map[string]interface{}{
			"obligations": total, "discharged": discharged,
			"checker_cmd":                     fmt.Sprintf("/verif/bin/govc check -prop %s -tier %s", *prop, *tier),
			"trusted_base":                    trustedBase,
			"functions_under_contract":        funcsUnder,
			"functions_inlined":               inl,
			"discharged_by_solver":            bySolver,
			"solver_seconds":                  solverTime,
			"known_findings":                  knownHits,
			"not_claimed":                     undecidedHits,
			"undecided_new":                   newUndecided,
			"tool_errors":                     toolErrors,
			"detached_clauses":                detachedClauses,
			"unreachable_returns":             deadReturns,
			"unreachable_returns_not_audited": suspectVacuity,
			"must_fail_corpus":                mutants,
			"slow_obligations":                slow,
			"solver_seconds_by_function":      secsByFunc,
			"samples":                         samples,
			"repo_head":                       strings.Split(before, "|")[0],
			"note":                            spec.Note,
		},
		"assumptions": assumptions,
	}
	if os.Getenv("GOVC_NOEVIDENCE") == "" {
		os.MkdirAll(verifDir+"/evidence", 0o755)
		data, _ := json.MarshalIndent(ev, "", " ")
		os.WriteFile(fmt.Sprintf("%s/evidence/%s.json", verifDir, *prop), data, 0o644)
	}
	os.Exit(exit)
}

// knownMatch: a known finding names an obligation by its full name or by "package/function/kind/label" up to the
// label (the part before " :: "), so that it survives cosmetic changes of the clause text.
func knownMatch(known map[string]string, name string) (string, bool) {
	if w, ok := known[name]; ok {
		return w, true
	}
	for k, w := range known {
		if strings.HasPrefix(name, k+" :: ") || strings.HasPrefix(name, k+" #") {
			return w, true
		}
	}
	return "", false
}

func funcKindKey(o *Oblig) string {
	parts := strings.SplitN(o.name, "/", 4)
	if len(parts) < 3 {
		return o.name
	}
	return parts[0] + "/" + parts[1] + "/" + parts[2]
}

func truncate(s string, n int) string {
	if len(s) > n {
		return s[:n] + "…"
	}
	return s
}

// replay writes a replay file for an undischarged obligation and, where the solver gave a model for a function of
// plain buffers and integers, runs it against the real code. Returns the file and whether the failure reproduced.
func (w *World) replay(prop string, u *UnitResult, o *Oblig) (string, bool) {
	dir := filepath.Join(verifDir, "replays", prop)
	if os.Getenv("GOVC_NOEVIDENCE") != "" {
		dir = filepath.Join(os.TempDir(), "govc-replays", prop)
	}
	os.MkdirAll(dir, 0o755)
	base := filepath.Join(dir, sanitizeFile(o.name))
	var b strings.Builder
	fmt.Fprintf(&b, "obligation: %s\nproperty: %s\nfunction: %s %s\nsource: %s\nstatus: %s\nsolver output:\n%s\n", o.name, prop, u.Pkg, u.Key, o.Pos, o.Status, o.Output)
	reproduced := false
	if o.Status == "sat" {
		if src, ok := w.replayBuffer(u, o); ok {
			goFile := base + "_test.go"
			os.WriteFile(goFile, []byte(src), 0o644)
			out, failed := runOverlayTest(w, u.Fn, goFile)
			fmt.Fprintf(&b, "\nreplay test: %s\nreplay output:\n%s\n", goFile, out)
			if failed {
				reproduced = true
			}
		}
	}
	path := base + ".txt"
	os.WriteFile(path, []byte(b.String()), 0o644)
	return path, reproduced
}

var _ = ssa.InstantiateGenerics
