// govc: determinism frame obligations (C13) — generated from the SSA of a function without any contract:
// no store to package-level state, no use of shared mutable package-level objects, no nondeterministic sources,
// and no order-sensitive emission inside a loop that ranges over a map.
package main

import (
	"fmt"
	"go/types"
	"strings"

	"golang.org/x/tools/go/ssa"
)

var nondetFuncs = map[string]bool{
	"time.Now": true, "time.Since": true, "math/rand.Int": true, "math/rand.Intn": true, "math/rand.Read": true, "crypto/rand.Read": true,
	"os.Getenv": true, "os.Getpid": true, "runtime.NumCPU": true, "runtime.GOMAXPROCS": true, "runtime.NumGoroutine": true, "os.Hostname": true,
}

// determinismObs adds the C13 frame obligations of fn to the engine of its unit. pcOf gives the path condition of a block.
func (f *frame) determinismObs() {
	e := f.e
	fn := f.fn
	tags := []string{"C13"}
	for _, b := range fn.Blocks {
		pc, reached := f.pcs[b]
		if !reached || pc == "false" {
			continue
		}
		for _, ins := range b.Instrs {
			// (1) package-level state
			for _, op := range ins.Operands(nil) {
				if op == nil || *op == nil {
					continue
				}
				g, isG := (*op).(*ssa.Global)
				if !isG {
					continue
				}
				if _, isStore := ins.(*ssa.Store); !isStore && !e.w.scope[g.Pkg] {
					continue // variables of other packages (io.EOF, binary.LittleEndian, ...) are not this library's state
				}
				switch x := ins.(type) {
				case *ssa.UnOp:
					// reading a package-level variable is allowed when it is a constant-like value
					t := g.Type().(*types.Pointer).Elem()
					if isImmutableLike(t) {
						e.obSyntactic(f, "frame:global-state", "reads constant-like package-level variable "+g.Name(), tags, x.Pos())
						continue
					}
					e.ob(f, "frame:global-state", "reads package-level variable "+g.Name()+" of a mutable type", tags, pc, "false", x.Pos())
				case *ssa.Store:
					if x.Addr == ssa.Value(g) {
						e.ob(f, "frame:global-state", "stores to package-level variable "+g.Name(), tags, pc, "false", x.Pos())
					} else {
						e.ob(f, "frame:global-state", "publishes the address of package-level variable "+g.Name(), tags, pc, "false", x.Pos())
					}
				default:
					// address of a package-level variable passed to a call, field/element address taken, ...
					e.ob(f, "frame:global-state", fmt.Sprintf("uses the address of package-level variable %s (%T)", g.Name(), ins), tags, pc, "false", ins.Pos())
				}
			}
			// (2) nondeterministic sources
			if ci, ok := ins.(ssa.CallInstruction); ok {
				if callee := ci.Common().StaticCallee(); callee != nil {
					if nondetFuncs[calleeName(callee)] {
						e.ob(f, "frame:nondeterministic-source", "calls "+calleeName(callee), tags, pc, "false", ins.Pos())
					} else {
						e.obSyntactic(f, "frame:nondeterministic-source", "calls "+calleeName(callee), tags, ins.Pos())
					}
				}
			}
			if _, isGo := ins.(*ssa.Go); isGo {
				e.ob(f, "frame:nondeterministic-source", "starts a goroutine", tags, pc, "false", ins.Pos())
			}
		}
	}
	// (3) loops ranging over a map must not emit bytes or write to a sink (the visit order is unspecified)
	for _, li := range f.loops {
		isMapRange := false
		for _, ins := range li.header.Instrs {
			if nx, ok := ins.(*ssa.Next); ok && !nx.IsString {
				isMapRange = true
			}
		}
		if !isMapRange {
			continue
		}
		for b := range li.blocks {
			pc, reached := f.pcs[b]
			if !reached || pc == "false" {
				continue
			}
			for _, ins := range b.Instrs {
				if _, isDbg := ins.(*ssa.DebugRef); isDbg {
					continue
				}
				if why := orderSensitive(e, fn, ins); why != "" {
					e.ob(f, "frame:map-order", "inside a loop over a map: "+why, tags, pc, "false", ins.Pos())
				} else {
					e.obSyntactic(f, "frame:map-order", fmt.Sprintf("inside a loop over a map: %T is order-insensitive", ins), tags, ins.Pos())
				}
			}
		}
	}
}

func isImmutableLike(t types.Type) bool {
	switch u := under(t).(type) {
	case *types.Basic:
		return true
	case *types.Struct:
		return u.NumFields() == 0
	case *types.Interface:
		return true // error values and the like: the variable holds a reference, never reassigned (checked by the store rule)
	case *types.Slice:
		if b, ok := under(u.Elem()).(*types.Basic); ok && b.Kind() == types.Uint8 {
			return true // Magic
		}
	case *types.Pointer:
		return true
	case *types.Map:
		return true // lookup tables; writes are MapUpdate on a loaded value and flagged by the mods rule below
	}
	return false
}

// orderSensitive: does this instruction produce output whose content depends on when it runs?
func orderSensitive(e *Engine, fn *ssa.Function, ins ssa.Instruction) string {
	w := e.w
	switch x := ins.(type) {
	case *ssa.Store:
		if l := e.staticLoc(x.Addr); l != nil && l.Kind == LElem {
			if b, ok := under(l.T).(*types.Basic); ok && b.Kind() == types.Uint8 {
				return "stores a byte into a buffer"
			}
		}
	case ssa.CallInstruction:
		c := x.Common()
		if b, ok := c.Value.(*ssa.Builtin); ok {
			if b.Name() == "copy" {
				return "copies into a buffer"
			}
			if b.Name() == "append" {
				if st, ok := under(c.Args[0].Type()).(*types.Slice); ok {
					if bb, ok := under(st.Elem()).(*types.Basic); ok && bb.Kind() == types.Uint8 {
						return "appends bytes"
					}
				}
			}
			return ""
		}
		if c.IsInvoke() {
			if c.Method.Name() == "Write" {
				return "writes to an io.Writer"
			}
			return ""
		}
		callee := c.StaticCallee()
		if callee == nil {
			return ""
		}
		name := calleeName(callee)
		if strings.Contains(name, "PutUint") {
			return "emits bytes (" + name + ")"
		}
		if w.inScope(callee) && callee.Blocks != nil {
			m, all := w.modsOf(callee)
			if all || m["E.uint8"] || m["G.wr_offered"] {
				return "calls " + funcKey(callee) + ", which writes bytes or to a sink"
			}
		}
	}
	return ""
}

// readDisciplineObs (C15): in the functions that consume the source, every read goes through io.ReadFull / io.ReadAll /
// io.Copy(N) / Seek, whose results do not depend on how the source fragments its deliveries; a direct Read on an
// interface value is an obligation that cannot be discharged. A method named Read is itself a reader (a wrapper that
// forwards fragments unchanged) and is exempt.
func (f *frame) readDisciplineObs() {
	e := f.e
	if f.fn.Name() == "Read" && f.fn.Signature.Recv() != nil {
		return
	}
	tags := []string{"C15"}
	for _, b := range f.fn.Blocks {
		pc, reached := f.pcs[b]
		if !reached || pc == "false" {
			continue
		}
		for _, ins := range b.Instrs {
			ci, ok := ins.(ssa.CallInstruction)
			if !ok {
				continue
			}
			c := ci.Common()
			if c.IsInvoke() && c.Method.Name() == "Read" && sigShape(c.Method.Type().(*types.Signature)) == "1:2" {
				e.ob(f, "frame:readfull-only", "direct Read on a source: "+e.w.srcText(ins.Pos(), ins), tags, pc, "false", ins.Pos())
				continue
			}
			if callee := c.StaticCallee(); callee != nil {
				switch calleeName(callee) {
				case "io.ReadFull", "io.ReadAll", "io.Copy", "io.CopyN", "io.ReadAtLeast":
					e.obSyntactic(f, "frame:readfull-only", "fragmentation-independent read: "+e.w.srcText(ins.Pos(), ins), tags, ins.Pos())
				}
			}
		}
	}
}
