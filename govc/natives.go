// govc: trusted native models of library functions outside the verified packages (DESIGN §2.5, assumption A9).
// Every use is counted in Engine.trusted and printed in the evidence.
package main

import (
	"fmt"
	"go/ast"
	"go/constant"
	"go/token"
	"go/types"
	"strings"

	"golang.org/x/tools/go/ssa"
)

type nativeFn func(f *frame, in ssa.Instruction, callee *ssa.Function, args []Val, pc string, h *Heap, nm string, resT types.Type) bool
type invokeFn func(f *frame, in ssa.Instruction, c *ssa.CallCommon, recv string, args []Val, pc string, h *Heap, nm string, resT types.Type) bool

var natives map[string]nativeFn
var nativeMods map[string][]string
var invokeNatives map[string]invokeFn
var invokeNativeMods map[string][]string

var ghostAll []string

func init() {
	for k := range ghostSorts {
		ghostAll = append(ghostAll, "G."+k)
	}
	wrG := []string{"G.wr_failed", "G.wr_offered", "G.wr_calls", "G.wr_last", "G.crc_hi", "G.crc_lo", "G.crc_src", "G.crc_last"}
	rdG := []string{"G.rd_pos", "G.rd_left", "G.rd_eof", "G.rd_gen", "G.rd_fault", "G.crc_hi", "G.crc_lo", "G.crc_src", "G.crc_last", "F.io.LimitedReader.N"}
	natives = map[string]nativeFn{}
	nativeMods = map[string][]string{}
	reg := func(name string, mods []string, fn nativeFn) {
		natives[name] = fn
		nativeMods[name] = mods
	}
	for _, k := range []int{2, 4, 8} {
		k := k
		bits := k * 8
		reg(fmt.Sprintf("(encoding/binary.littleEndian).Uint%d", bits), nil, func(f *frame, in ssa.Instruction, callee *ssa.Function, args []Val, pc string, h *Heap, nm string, resT types.Type) bool {
			e := f.e
			s, ok := args[len(args)-1].(SliceV)
			if !ok {
				f.setResult(in, e.havocVal(nm, resT))
				return true
			}
			f.safetyOb("nopanic:index", pc, fmt.Sprintf("(>= %s %d)", s.L, k), in.Pos(), in)
			arr := e.comp(h, "E.uint8", "Int", true)
			var bs []string
			for i := 0; i < k; i++ {
				bs = append(bs, e.selectFwd(arr, s.B, addT(s.O, fmt.Sprint(i))))
			}
			e.useLE = true
			v := e.define(nm, "Int", fmt.Sprintf("(le%d %s)", bits, strings.Join(bs, " ")))
			e.assume(rangeFact(resT, v))
			f.setResult(in, Sc{v})
			return true
		})
		reg(fmt.Sprintf("(encoding/binary.littleEndian).PutUint%d", bits), []string{"E.uint8"}, func(f *frame, in ssa.Instruction, callee *ssa.Function, args []Val, pc string, h *Heap, nm string, resT types.Type) bool {
			e := f.e
			s, ok := args[len(args)-2].(SliceV)
			if !ok {
				return true
			}
			x := e.scalar(args[len(args)-1])
			f.safetyOb("nopanic:index", pc, fmt.Sprintf("(>= %s %d)", s.L, k), in.Pos(), in)
			arr := e.comp(h, "E.uint8", "Int", true)
			row := fmt.Sprintf("(select %s %s)", arr, s.B)
			e.useLE = true
			var bs []string
			for i := 0; i < k; i++ {
				b := fmt.Sprintf("(byteof %s %d)", x, i)
				bs = append(bs, b)
				row = fmt.Sprintf("(store %s %s %s)", row, addT(s.O, fmt.Sprint(i)), b)
				key := "byteof:" + b
				if !e.once[key] {
					e.once[key] = true
					e.assumeGlobal(fmt.Sprintf("(and (<= 0 %s) (<= %s 255))", b, b))
				}
			}
			key := fmt.Sprintf("leinv%d:%s", bits, x)
			if !e.once[key] {
				e.once[key] = true
				e.assumeGlobal(fmt.Sprintf("(= (le%d %s) %s)", bits, strings.Join(bs, " "), x))
			}
			e.setComp(h, "E.uint8", fmt.Sprintf("(store %s %s %s)", arr, s.B, row))
			return true
		})
	}
	// ----- io -----
	reg("io.ReadFull", append([]string{"E.uint8", "impl:Read/1:2"}, rdG...), func(f *frame, in ssa.Instruction, callee *ssa.Function, args []Val, pc string, h *Heap, nm string, resT types.Type) bool {
		e := f.e
		r := e.scalar(args[0])
		s, _ := args[1].(SliceV)
		f.safetyOb("nopanic:nil", pc, fmt.Sprintf("(not (= %s 0))", r), in.Pos(), in)
		keep := f.readerSelf(h, r, nm)
		f.implHavoc(h, "Read/1:2", args[0])
		keep()
		rv := e.havocVal(nm, resT).(TupleV)
		n, er := e.scalar(rv[0]), e.scalar(rv[1])
		e.assume(fmt.Sprintf("(and (<= 0 %s) (<= %s %s) (= (= %s 0) (= %s %s)))", n, n, s.L, er, n, s.L))
		// io.ReadFull: EOF only if nothing was read, ErrUnexpectedEOF only if something was (for sources honouring io.Reader, A2)
		e.assume(fmt.Sprintf("(and (=> (isEOF %s) (= %s 0)) (=> (isUEOF %s) (> %s 0)) (=> (= %s 0) (and (not (isEOF 0)) true)))", er, n, er, n, er))
		f.fillFromStream(h, s, nm, r, n)
		f.readerAdvance(h, r, n, pc)
		f.noteFault(h, er)
		f.setResult(in, rv)
		return true
	})
	reg("io.ReadAll", append([]string{"E.uint8", "impl:Read/1:2"}, rdG...), func(f *frame, in ssa.Instruction, callee *ssa.Function, args []Val, pc string, h *Heap, nm string, resT types.Type) bool {
		e := f.e
		r := e.scalar(args[0])
		f.safetyOb("nopanic:nil", pc, fmt.Sprintf("(not (= %s 0))", r), in.Pos(), in)
		// io.ReadAll buffers everything the source still delivers: that amount must be known to stay under the ceiling
		left := e.ghost(h, "rd_left")
		e.ob(f, "alloc", "io.ReadAll buffers whatever the source still delivers: "+e.w.srcText(in.Pos(), in), f.safety, pc, fmt.Sprintf("(< (select %s %s) 2147483648)", left, r), in.Pos())
		f.implHavoc(h, "Read/1:2", args[0])
		rv := e.havocVal(nm, resT).(TupleV)
		if s, ok := rv[0].(SliceV); ok {
			e.assume(fmt.Sprintf("(> %s pre)", s.B))
			f.readerAdvance(h, r, s.L, pc)
		}
		e.assume(fmt.Sprintf("(not (isEOF %s))", e.scalar(rv[1])))
		f.setResult(in, rv)
		return true
	})
	copyFn := func(limited bool) nativeFn {
		return func(f *frame, in ssa.Instruction, callee *ssa.Function, args []Val, pc string, h *Heap, nm string, resT types.Type) bool {
			e := f.e
			dst, src := e.scalar(args[0]), e.scalar(args[1])
			f.safetyOb("nopanic:nil", pc, fmt.Sprintf("(and (not (= %s 0)) (not (= %s 0)))", dst, src), in.Pos(), in)
			if !limited {
				// the destination is a writer of the verified packages built in this function: io.Copy is a loop of its Write
				if info, ok := e.ifaces[dst]; ok {
					if m := e.w.methodOf(info.Dyn, "Write"); m != nil && e.w.inScope(m) && m.Blocks != nil && len(m.Params) == 2 {
						// io.Copy uses src.WriteTo(dst) when the source has it (calls of dst.Write, modelled by the loop) and otherwise
						// dst.ReadFrom(src) when the destination has it: a destination of the verified packages that offers ReadFrom
						// is modelled on both paths
						if rf := e.w.methodOf(info.Dyn, "ReadFrom"); rf != nil && e.w.inScope(rf) && rf.Blocks != nil && len(rf.Params) == 2 {
							viaWrite := e.fresh(nm+".srcHasWriteTo", "Bool")
							hA, hB := h.clone(), h.clone()
							f.copyLoop(in, args, and(pc, viaWrite), hA, nm, resT, m, info.P)
							rA := f.vals[in.(ssa.Value)]
							alive := f.staticCall(in, rf, []Val{info.P, args[1]}, nil, and(pc, not(viaWrite)), hB, nm+".rf", resT, in.Pos())
							rB := f.vals[in.(ssa.Value)]
							conds := []string{and(pc, viaWrite), and(pc, not(viaWrite))}
							if !alive {
								e.assumeIf(pc, viaWrite)
								*h = *hA
								f.setResult(in, rA)
								return true
							}
							*h = *e.mergeHeaps(conds, []*Heap{hA, hB})
							f.setResult(in, e.mergeVals(nm+".copy", resT, conds, []Val{rA, rB}))
							return true
						}
						return f.copyLoop(in, args, pc, h, nm, resT, m, info.P)
					}
				}
			}
			discard := dst == q("gv.io.Discard")
			if info, ok := e.ifaces[dst]; ok && isMemBuffer(info.Dyn) {
				// copying into a memory buffer holds everything the source delivers (C20/C10): that amount must be bounded
				if limited {
					e.ob(f, "alloc", "io.CopyN into a memory buffer holds the whole amount: "+e.w.srcText(in.Pos(), in), f.safety, pc, fmt.Sprintf("(< %s 2147483648)", e.scalar(args[2])), in.Pos())
				} else {
					left := e.ghost(h, "rd_left")
					e.ob(f, "alloc", "io.Copy into a memory buffer holds whatever the source still delivers: "+e.w.srcText(in.Pos(), in), f.safety, pc, fmt.Sprintf("(< (select %s %s) 2147483648)", left, src), in.Pos())
				}
			}
			if !discard {
				f.writerPre(h, dst, pc, in)
			}
			f.implHavoc(h, "Read/1:2", args[1])
			f.implHavoc(h, "Write/1:2", args[0])
			rv := e.havocVal(nm, resT).(TupleV)
			n, er := e.scalar(rv[0]), e.scalar(rv[1])
			e.assume(fmt.Sprintf("(>= %s 0)", n))
			if limited {
				lim := e.scalar(args[2])
				e.assume(fmt.Sprintf("(and (=> (>= %s 0) (<= %s %s)) (=> (and (= %s 0) (>= %s 0)) (= %s %s)) (=> (and (>= %s 0) (not (= %s 0))) (< %s %s)))", lim, n, lim, er, lim, n, lim, lim, er, n, lim))
			}
			// a successful Copy never returns EOF
			e.assume(fmt.Sprintf("(=> (not (= %s 0)) (not (isEOF %s)))", er, er))
			if !discard {
				f.writerMany(h, dst, n, er)
			}
			f.readerAdvance(h, src, n, pc)
			f.noteFault(h, er)
			if !limited {
				eof := e.ghost(h, "rd_eof")
				e.setGhost(h, "rd_eof", eof, src, fmt.Sprintf("(or (select %s %s) (= %s 0))", eof, src, er))
			}
			f.setResult(in, rv)
			return true
		}
	}
	reg("io.Copy", append(append([]string{"E.uint8", "impl:Read/1:2", "impl:Write/1:2"}, wrG...), rdG...), copyFn(false))
	reg("io.CopyN", append(append([]string{"E.uint8", "impl:Read/1:2", "impl:Write/1:2"}, wrG...), rdG...), copyFn(true))
	reg("io.LimitReader", nil, func(f *frame, in ssa.Instruction, callee *ssa.Function, args []Val, pc string, h *Heap, nm string, resT types.Type) bool {
		e := f.e
		r := e.newRef(nm + ".limitreader")
		f.setResult(in, Sc{r})
		return true
	})
	// ----- errors / fmt -----
	reg("errors.New", nil, func(f *frame, in ssa.Instruction, callee *ssa.Function, args []Val, pc string, h *Heap, nm string, resT types.Type) bool {
		e := f.e
		r := e.newRef(nm + ".err")
		e.assume(fmt.Sprintf("(and (not (isEOF %s)) (not (isUEOF %s)) (not (isCRC %s)))", r, r, r))
		f.setResult(in, Sc{r})
		return true
	})
	reg("fmt.Errorf", nil, func(f *frame, in ssa.Instruction, callee *ssa.Function, args []Val, pc string, h *Heap, nm string, resT types.Type) bool {
		e := f.e
		r := e.newRef(nm + ".err")
		format := ""
		c := in.(ssa.CallInstruction).Common()
		if k, ok := c.Args[0].(*ssa.Const); ok && k.Value != nil && k.Value.Kind() == constant.String {
			format = constant.StringVal(k.Value)
		}
		nw := strings.Count(format, "%w")
		var wrapped []string
		if nw > 0 && len(c.Args) > 1 {
			for _, v := range variadicOperands(c.Args[1]) {
				if isErrorType(v.Type()) {
					wrapped = append(wrapped, e.scalar(f.get(v)))
				} else if mi, ok := v.(*ssa.MakeInterface); ok && implementsError(mi.X.Type()) {
					wrapped = append(wrapped, e.scalar(f.get(v)))
				} else if ci, ok := v.(*ssa.ChangeInterface); ok && isErrorType(ci.X.Type()) {
					wrapped = append(wrapped, e.scalar(f.get(ci.X)))
				}
			}
		}
		switch {
		case nw == 0:
			e.assume(fmt.Sprintf("(and (not (isEOF %s)) (not (isUEOF %s)) (not (isCRC %s)))", r, r, r))
		case nw == 1 && len(wrapped) == 1:
			w := wrapped[0]
			e.assume(fmt.Sprintf("(and (= (isEOF %s) (isEOF %s)) (= (isUEOF %s) (isUEOF %s)) (= (isCRC %s) (isCRC %s)))", r, w, r, w, r, w))
		default:
			e.imprecise["fmt.Errorf-wrap"]++
		}
		f.setResult(in, Sc{r})
		return true
	})
	reg("errors.Is", nil, func(f *frame, in ssa.Instruction, callee *ssa.Function, args []Val, pc string, h *Heap, nm string, resT types.Type) bool {
		e := f.e
		er, tg := e.scalar(args[0]), e.scalar(args[1])
		switch tg {
		case q("gv.io.EOF"):
			f.setResult(in, Sc{fmt.Sprintf("(isEOF %s)", er)})
		case q("gv.io.ErrUnexpectedEOF"):
			f.setResult(in, Sc{fmt.Sprintf("(isUEOF %s)", er)})
		default:
			b := e.fresh(nm, "Bool")
			e.assume(fmt.Sprintf("(and (=> (and (= %s %s) (not (= %s 0))) %s) (=> (and (= %s 0) (not (= %s 0))) (not %s)))", er, tg, er, b, er, tg, b))
			f.setResult(in, Sc{b})
		}
		return true
	})
	reg("errors.As", []string{"C.*"}, func(f *frame, in ssa.Instruction, callee *ssa.Function, args []Val, pc string, h *Heap, nm string, resT types.Type) bool {
		e := f.e
		er := e.scalar(args[0])
		c := in.(ssa.CallInstruction).Common()
		tt := ""
		var cell *Loc
		if mi, ok := c.Args[1].(*ssa.MakeInterface); ok {
			tt = types.TypeString(mi.X.Type(), func(p *types.Package) string { return p.Name() })
			if pv, ok := f.get(mi.X).(PtrV); ok {
				cell = pv.L
			}
		}
		var b string
		if tt == "**mcap.errInvalidChunkCrc" {
			b = fmt.Sprintf("(isCRC %s)", er)
		} else {
			b = e.fresh(nm, "Bool")
			e.assume(fmt.Sprintf("(=> (= %s 0) (not %s))", er, b))
		}
		if cell != nil {
			e.store(h, cell, e.havocVal(nm+".target", cell.T))
		}
		f.setResult(in, Sc{b})
		return true
	})
	pureFresh := func(nonNil bool) nativeFn {
		return func(f *frame, in ssa.Instruction, callee *ssa.Function, args []Val, pc string, h *Heap, nm string, resT types.Type) bool {
			e := f.e
			if resT == nil {
				return true
			}
			v := e.havocVal(nm, resT)
			if nonNil {
				markNonNil(e, v)
			}
			f.setResult(in, v)
			return true
		}
	}
	for _, n := range []string{"fmt.Sprintf", "fmt.Sprint", "fmt.Sprintln", "strings.TrimSpace", "strings.TrimPrefix", "strings.TrimSuffix", "strings.ToLower", "strings.ToUpper",
		"strings.Join", "strings.HasSuffix", "strings.EqualFold", "strings.Replace", "strings.ReplaceAll", "strings.Fields", "strings.TrimRight", "strings.TrimLeft", "strings.Trim",
		"strconv.Atoi", "strconv.Itoa", "strconv.ParseInt", "strconv.ParseUint", "strconv.FormatInt", "strconv.Quote",
		"(*regexp.Regexp).FindStringSubmatch", "(*regexp.Regexp).MatchString", "(*regexp.Regexp).FindString", "hash/crc32.Update",
		"(*strings.Builder).String", "(*bytes.Buffer).Len", "(*bytes.Buffer).String", "(*bytes.Reader).Len", "(*bytes.Reader).Size", "path.Base", "path/filepath.Base", "path/filepath.Join", "path/filepath.Dir",
		"fmt.Fprintf", "fmt.Fprintln", "fmt.Printf", "fmt.Println", "(time.Duration).String", "bytes.HasPrefix", "bytes.Contains", "unicode.IsSpace",
		"github.com/klauspost/compress/zstd.WithEncoderLevel", "github.com/pierrec/lz4/v4.CompressionLevelOption"} {
		reg(n, nil, pureFresh(false))
	}
	reg("hash/crc32.ChecksumIEEE", nil, func(f *frame, in ssa.Instruction, callee *ssa.Function, args []Val, pc string, h *Heap, nm string, resT types.Type) bool {
		e := f.e
		sv, ok := args[0].(SliceV)
		if !ok {
			f.setResult(in, e.havocVal(nm, resT))
			return true
		}
		arr := e.comp(h, "E.uint8", "Int", true)
		v := e.define(nm, "Int", fmt.Sprintf("(crcarr (select %s %s) %s %s)", arr, sv.B, sv.O, sv.L))
		e.assume(rangeFact(resT, v))
		f.setResult(in, Sc{v})
		return true
	})
	reg("hash/crc32.NewIEEE", []string{"G.crc_hi"}, func(f *frame, in ssa.Instruction, callee *ssa.Function, args []Val, pc string, h *Heap, nm string, resT types.Type) bool {
		e := f.e
		r := e.newRef(nm + ".hash")
		hi := e.ghost(h, "crc_hi")
		e.setGhost(h, "crc_hi", hi, r, "0") // a new hash has absorbed nothing
		f.setResult(in, Sc{r})
		return true
	})
	reg("bytes.NewReader", rdG, func(f *frame, in ssa.Instruction, callee *ssa.Function, args []Val, pc string, h *Heap, nm string, resT types.Type) bool {
		e := f.e
		r := e.newRef(nm + ".bytesreader")
		// ghost reader state is keyed by the interface value reads go through
		key := fmt.Sprintf("(mkiface %d %s)", e.tagOf(resT), r)
		g := f.newStream(h, key, nm)
		if s, ok := args[0].(SliceV); ok {
			f.streamIsSlice(h, key, g, s)
		}
		f.setResult(in, PtrV{&Loc{Kind: LObj, Ref: r, T: resT.(*types.Pointer).Elem()}})
		return true
	})
	reg("(*bytes.Reader).Reset", rdG, func(f *frame, in ssa.Instruction, callee *ssa.Function, args []Val, pc string, h *Heap, nm string, resT types.Type) bool {
		e := f.e
		r := fmt.Sprintf("(mkiface %d %s)", e.tagOf(callee.Signature.Recv().Type()), e.scalar(args[0]))
		g := f.newStream(h, r, nm)
		if s, ok := args[1].(SliceV); ok {
			f.streamIsSlice(h, r, g, s)
		}
		return true
	})
	for _, n := range []string{"bytes.NewBuffer", "bufio.NewReader", "bufio.NewReaderSize", "bufio.NewWriter", "github.com/pierrec/lz4/v4.NewReader", "github.com/pierrec/lz4/v4.NewWriter",
		"compress/bzip2.NewReader", "strings.NewReader", "io.MultiReader", "io.TeeReader", "io.NopCloser", "io.NewSectionReader"} {
		reg(n, nil, pureFresh(true))
	}
	ctor2 := func(f *frame, in ssa.Instruction, callee *ssa.Function, args []Val, pc string, h *Heap, nm string, resT types.Type) bool {
		e := f.e
		rv := e.havocVal(nm, resT).(TupleV)
		er := e.scalar(rv[1])
		if pv, ok := rv[0].(PtrV); ok {
			e.assume(fmt.Sprintf("(and (=> (= %s 0) (> %s pre)) (not (isEOF %s)))", er, pv.L.Ref, er))
		}
		f.setResult(in, rv)
		return true
	}
	reg("github.com/klauspost/compress/zstd.NewReader", nil, ctor2)
	reg("github.com/klauspost/compress/zstd.NewWriter", nil, ctor2)
	// methods of external concrete types that only touch their own (external) state
	for _, n := range []string{"(*bytes.Buffer).Reset", "(*github.com/klauspost/compress/zstd.Decoder).Close",
		"(*github.com/pierrec/lz4/v4.Writer).Apply", "(*github.com/pierrec/lz4/v4.Writer).Reset", "(*github.com/klauspost/compress/zstd.Encoder).Reset",
		"(*strings.Builder).WriteByte", "(*strings.Builder).WriteRune", "(*bytes.Buffer).WriteString", "(*bytes.Buffer).WriteByte"} {
		reg(n, nil, pureFresh(false))
	}
	// a decompressor reset onto another source delivers a new stream
	for _, n := range []string{"(*github.com/klauspost/compress/zstd.Decoder).Reset", "(*github.com/pierrec/lz4/v4.Reader).Reset"} {
		reg(n, rdG, func(f *frame, in ssa.Instruction, callee *ssa.Function, args []Val, pc string, h *Heap, nm string, resT types.Type) bool {
			e := f.e
			f.newStream(h, e.scalar(args[0]), nm)
			if resT != nil {
				f.setResult(in, e.havocVal(nm, resT))
			}
			return true
		})
	}
	sbLen := func(e *Engine, h *Heap, recv Val) (string, string) {
		arr := e.comp(h, "G.sb_len", "Int", false)
		return arr, e.scalar(recv)
	}
	reg("(*strings.Builder).WriteString", []string{"G.sb_len"}, func(f *frame, in ssa.Instruction, callee *ssa.Function, args []Val, pc string, h *Heap, nm string, resT types.Type) bool {
		e := f.e
		arr, r := sbLen(e, h, args[0])
		e.setGhost(h, "sb_len", arr, r, fmt.Sprintf("(+ (select %s %s) (slen %s))", arr, r, e.scalar(args[1])))
		if resT != nil {
			f.setResult(in, e.havocVal(nm, resT))
		}
		return true
	})
	reg("(*strings.Builder).Reset", []string{"G.sb_len"}, func(f *frame, in ssa.Instruction, callee *ssa.Function, args []Val, pc string, h *Heap, nm string, resT types.Type) bool {
		e := f.e
		arr, r := sbLen(e, h, args[0])
		e.setGhost(h, "sb_len", arr, r, "0")
		return true
	})
	reg("(*strings.Builder).Len", nil, func(f *frame, in ssa.Instruction, callee *ssa.Function, args []Val, pc string, h *Heap, nm string, resT types.Type) bool {
		e := f.e
		arr, r := sbLen(e, h, args[0])
		f.setResult(in, Sc{e.define(nm, "Int", fmt.Sprintf("(select %s %s)", arr, r))})
		return true
	})
	reg("(*bytes.Buffer).Write", nil, func(f *frame, in ssa.Instruction, callee *ssa.Function, args []Val, pc string, h *Heap, nm string, resT types.Type) bool {
		s, _ := args[1].(SliceV)
		f.setResult(in, TupleV{Sc{s.L}, Sc{"0"}}) // documented: err is always nil
		return true
	})
	reg("(*bytes.Buffer).Bytes", nil, pureFresh(false))
	reg("(*github.com/klauspost/compress/zstd.Decoder).DecodeAll", []string{"E.uint8"}, func(f *frame, in ssa.Instruction, callee *ssa.Function, args []Val, pc string, h *Heap, nm string, resT types.Type) bool {
		e := f.e
		e.havocHeapComp(h, "E.uint8")
		rv := e.havocVal(nm, resT).(TupleV)
		// the output is appended to dst (append semantics): the result's capacity is at least dst's (A5/A9)
		if dst, ok := args[2].(SliceV); ok {
			if r, ok := rv[0].(SliceV); ok {
				e.assume(fmt.Sprintf("(and (>= %s %s) (> %s 0))", r.C, dst.C, r.B))
				// append semantics: the result is dst's backing array or a new one
				e.assume(fmt.Sprintf("(or (= %s %s) (> %s %s))", r.B, dst.B, r.B, e.water()))
			}
		}
		f.setResult(in, rv)
		return true
	})
	reg("bytes.Equal", nil, func(f *frame, in ssa.Instruction, callee *ssa.Function, args []Val, pc string, h *Heap, nm string, resT types.Type) bool {
		e := f.e
		a, _ := args[0].(SliceV)
		b, _ := args[1].(SliceV)
		r := e.fresh(nm, "Bool")
		e.assume(fmt.Sprintf("(=> %s (= %s %s))", r, a.L, b.L))
		f.setResult(in, Sc{r})
		return true
	})
	reg("bytes.IndexByte", nil, func(f *frame, in ssa.Instruction, callee *ssa.Function, args []Val, pc string, h *Heap, nm string, resT types.Type) bool {
		e := f.e
		a, _ := args[0].(SliceV)
		r := e.fresh(nm, "Int")
		e.assume(fmt.Sprintf("(and (<= (- 1) %s) (< %s (ite (= %s 0) 0 %s)) (or (= %s (- 1)) (< %s %s)))", r, r, a.L, a.L, r, r, a.L))
		f.setResult(in, Sc{r})
		return true
	})
	reg("bytes.Index", nil, func(f *frame, in ssa.Instruction, callee *ssa.Function, args []Val, pc string, h *Heap, nm string, resT types.Type) bool {
		e := f.e
		a, _ := args[0].(SliceV)
		b, _ := args[1].(SliceV)
		r := e.fresh(nm, "Int")
		e.assume(fmt.Sprintf("(and (<= (- 1) %s) (or (= %s (- 1)) (<= (+ %s %s) %s)))", r, r, r, b.L, a.L))
		f.setResult(in, Sc{r})
		return true
	})
	strIndex := func(contains bool) nativeFn {
		return func(f *frame, in ssa.Instruction, callee *ssa.Function, args []Val, pc string, h *Heap, nm string, resT types.Type) bool {
			e := f.e
			s, sub := e.scalar(args[0]), e.scalar(args[1])
			e.useStrIdx = true
			t := fmt.Sprintf("(stridx %s %s)", s, sub)
			key := "stridx:" + t
			if !e.once[key] {
				e.once[key] = true
				e.assumeGlobal(fmt.Sprintf("(and (<= (- 1) %s) (or (= %s (- 1)) (<= (+ %s (slen %s)) (slen %s))))", t, t, t, sub, s))
				// a found occurrence really is one: the bytes of a short literal pattern are there
				c := in.(ssa.CallInstruction).Common()
				if k, ok := c.Args[1].(*ssa.Const); ok && k.Value != nil && k.Value.Kind() == constant.String {
					lit := constant.StringVal(k.Value)
					if len(lit) >= 1 && len(lit) <= 8 {
						var eqs []string
						for i := 0; i < len(lit); i++ {
							eqs = append(eqs, fmt.Sprintf("(= (sat %s (+ %s %d)) %d)", s, t, i, lit[i]))
						}
						e.assumeGlobal(fmt.Sprintf("(=> (>= %s 0) (and %s))", t, strings.Join(eqs, " ")))
					}
				}
			}
			if contains {
				f.setResult(in, Sc{fmt.Sprintf("(>= %s 0)", t)})
			} else {
				f.setResult(in, Sc{e.define(nm, "Int", t)})
			}
			return true
		}
	}
	lastIdx := func(f *frame, in ssa.Instruction, callee *ssa.Function, args []Val, pc string, h *Heap, nm string, resT types.Type) bool {
		e := f.e
		r := e.fresh(nm, "Int")
		var sl, subl string
		if sv, ok := args[0].(SliceV); ok {
			sl = sv.L
		} else {
			sl = fmt.Sprintf("(slen %s)", e.scalar(args[0]))
		}
		switch x := args[1].(type) {
		case SliceV:
			subl = x.L
		case Sc:
			if e.decls[x.T] == "Str" || strings.HasPrefix(x.T, "|strlit") || x.T == "emptystr" {
				subl = fmt.Sprintf("(slen %s)", x.T)
			} else {
				subl = "1" // a byte or rune
			}
		default:
			subl = "1"
		}
		e.assume(fmt.Sprintf("(and (<= (- 1) %s) (or (= %s (- 1)) (<= (+ %s %s) %s)))", r, r, r, subl, sl))
		f.setResult(in, Sc{r})
		return true
	}
	for _, n := range []string{"strings.LastIndex", "strings.IndexByte", "strings.LastIndexByte", "strings.IndexRune", "strings.IndexAny", "strings.LastIndexAny",
		"bytes.LastIndex", "bytes.LastIndexByte", "bytes.IndexRune", "bytes.IndexAny"} {
		reg(n, nil, lastIdx)
	}
	reg("strings.Index", nil, strIndex(false))
	reg("strings.Contains", nil, strIndex(true))
	reg("strings.HasPrefix", nil, func(f *frame, in ssa.Instruction, callee *ssa.Function, args []Val, pc string, h *Heap, nm string, resT types.Type) bool {
		e := f.e
		s, p := e.scalar(args[0]), e.scalar(args[1])
		r := e.fresh(nm, "Bool")
		e.assume(fmt.Sprintf("(=> %s (>= (slen %s) (slen %s)))", r, s, p))
		f.setResult(in, Sc{r})
		return true
	})
	reg("strings.Split", []string{"E.string"}, func(f *frame, in ssa.Instruction, callee *ssa.Function, args []Val, pc string, h *Heap, nm string, resT types.Type) bool {
		e := f.e
		sep := e.scalar(args[1])
		v := e.havocVal(nm, resT).(SliceV)
		e.assume(fmt.Sprintf("(and (> %s pre) (=> (> (slen %s) 0) (>= %s 1)))", v.B, sep, v.L))
		f.setResult(in, v)
		return true
	})
	reg("math/bits.Add64", nil, func(f *frame, in ssa.Instruction, callee *ssa.Function, args []Val, pc string, h *Heap, nm string, resT types.Type) bool {
		e := f.e
		a, b, c := e.scalar(args[0]), e.scalar(args[1]), e.scalar(args[2])
		sum := fmt.Sprintf("(+ %s %s %s)", a, b, c)
		s := e.define(nm+".sum", "Int", fmt.Sprintf("(ite (>= %s 18446744073709551616) (- %s 18446744073709551616) %s)", sum, sum, sum))
		cy := e.define(nm+".carry", "Int", fmt.Sprintf("(ite (>= %s 18446744073709551616) 1 0)", sum))
		f.setResult(in, TupleV{Sc{s}, Sc{cy}})
		return true
	})
	sortFn := func(stable bool) nativeFn {
		return func(f *frame, in ssa.Instruction, callee *ssa.Function, args []Val, pc string, h *Heap, nm string, resT types.Type) bool {
			e := f.e
			c := in.(ssa.CallInstruction).Common()
			// x is passed as interface{}: find the slice behind it
			var st *types.Slice
			var sv SliceV
			if mi, ok := c.Args[0].(*ssa.MakeInterface); ok {
				st, _ = under(mi.X.Type()).(*types.Slice)
				sv, _ = f.get(mi.X).(SliceV)
			}
			if st == nil {
				e.havocAll(h)
				return true
			}
			// the comparator is called with indices in range: its precondition must hold for all of them
			if cv, ok := args[1].(ClosV); ok && cv.Fn != nil {
				less := cv.Fn.(*ssa.Function)
				if con := e.w.contractFor(less); con != nil && len(less.Params) == 2 {
					e.n++
					bi, bj := q(fmt.Sprintf("i?%d", e.n)), q(fmt.Sprintf("j?%d", e.n))
					env := &Env{vars: map[string]TV{}, cells: map[string]bool{}, heap: h, old: h}
					if less.Pkg != nil {
						env.pkg = less.Pkg.Pkg
					} else if less.Parent() != nil && less.Parent().Pkg != nil {
						env.pkg = less.Parent().Pkg.Pkg
					}
					env.vars[less.Params[0].Name()] = TV{Sc{bi}, tInt}
					env.vars[less.Params[1].Name()] = TV{Sc{bj}, tInt}
					for k, fv := range less.FreeVars {
						if k < len(cv.Binds) {
							env.vars[fv.Name()] = TV{cv.Binds[k], fv.Type()}
							if _, isP := fv.Type().(*types.Pointer); isP {
								env.cells[fv.Name()] = true
							}
						}
					}
					for _, rq := range con.Requires {
						t := e.evalBool(env, rq.Expr)
						e.useQuant = true
						e.ob(f, "pre", con.Key+" (for all indices in range): "+rq.label(), f.safety, pc,
							fmt.Sprintf("(forall ((%s Int) (%s Int)) (=> (and (<= 0 %s) (< %s %s) (<= 0 %s) (< %s %s)) %s))", bi, bj, bi, bi, sv.L, bj, bj, sv.L, t), in.Pos())
					}
				} else {
					e.unmod["comparator "+funcKey(less)]++
				}
			}
			// afterwards the range holds a permutation of what it held: new[k] = old[perm(k)], perm onto the range
			e.n++
			perm := fmt.Sprintf("perm!%d", e.n)
			inv := fmt.Sprintf("perminv!%d", e.n)
			e.extraDecls = append(e.extraDecls, fmt.Sprintf("(declare-fun %s (Int) Int)", perm), fmt.Sprintf("(declare-fun %s (Int) Int)", inv))
			e.useQuant = true
			tok := q(fmt.Sprintf("sortfact!%d", e.n))
			_ = tok
			e.assumeGlobal(fmt.Sprintf("(forall ((k Int)) (! (=> (and (<= 0 k) (< k %s)) (and (<= 0 (%s k)) (< (%s k) %s) (= (%s (%s k)) k))) :pattern ((%s k))))", sv.L, perm, perm, sv.L, inv, perm, perm))
			e.assumeGlobal(fmt.Sprintf("(forall ((k Int)) (! (=> (and (<= 0 k) (< k %s)) (and (<= 0 (%s k)) (< (%s k) %s) (= (%s (%s k)) k))) :pattern ((%s k))))", sv.L, inv, inv, sv.L, perm, inv, inv))
			for _, cs := range e.elemComps(st.Elem()) {
				name, so := cs[0], cs[1]
				arr := e.comp(h, name, so, true)
				na := e.fresh("Hsort."+name, fmt.Sprintf("(Array Int %s)", so))
				oldRow := fmt.Sprintf("(select %s %s)", arr, sv.B)
				// absolute index j of the backing array: new[j] = old[off + perm(j - off)] inside the range, unchanged outside
				e.assumeGlobal(fmt.Sprintf("(forall ((j Int)) (! (=> (and (<= %s j) (< j (+ %s %s))) (= (select %s j) (select %s (+ %s (%s (- j %s)))))) :pattern ((select %s j))))", sv.O, sv.O, sv.L, na, oldRow, sv.O, perm, sv.O, na))
				e.assumeGlobal(fmt.Sprintf("(forall ((j Int)) (! (=> (or (< j %s) (>= j (+ %s %s))) (= (select %s j) (select %s j))) :pattern ((select %s j))))", sv.O, sv.O, sv.L, na, oldRow, na))
				e.setComp(h, name, fmt.Sprintf("(store %s %s %s)", arr, sv.B, na))
			}
			e.sortFacts = append(e.sortFacts, sortFact{perm: perm, inv: inv, slice: sv, stable: stable, less: args[1], elem: st.Elem()})
			// ordered by the comparator: when the closure's contract says `ensures result == E(i, j)` (proved for the closure
			// itself), the sorted range satisfies: no later element is less than an earlier one; a stable sort keeps the
			// original order of elements neither of which is less than the other.
			if cv, ok := args[1].(ClosV); ok && cv.Fn != nil {
				less := cv.Fn.(*ssa.Function)
				if con := e.w.contractFor(less); con != nil && len(less.Params) == 2 {
					var body ast.Expr
					for _, en := range con.Ensures {
						if be, ok := en.Expr.(*ast.BinaryExpr); ok && be.Op == token.EQL {
							if id, ok := be.X.(*ast.Ident); ok && (id.Name == "result" || id.Name == "r0") {
								body = be.Y
							}
						}
					}
					if body != nil {
						e.n++
						bi, bj := q(fmt.Sprintf("si?%d", e.n)), q(fmt.Sprintf("sj?%d", e.n))
						mk := func(a, b string) *Env {
							env := &Env{vars: map[string]TV{}, cells: map[string]bool{}, heap: h, old: h}
							if less.Pkg != nil {
								env.pkg = less.Pkg.Pkg
							} else if less.Parent() != nil && less.Parent().Pkg != nil {
								env.pkg = less.Parent().Pkg.Pkg
							}
							env.vars[less.Params[0].Name()] = TV{Sc{a}, tInt}
							env.vars[less.Params[1].Name()] = TV{Sc{b}, tInt}
							for k, fv := range less.FreeVars {
								if k < len(cv.Binds) {
									env.vars[fv.Name()] = TV{cv.Binds[k], fv.Type()}
									if _, isP := fv.Type().(*types.Pointer); isP {
										env.cells[fv.Name()] = true
									}
								}
							}
							return env
						}
						lessJI := e.evalBool(mk(bj, bi), body)
						lessIJ := e.evalBool(mk(bi, bj), body)
						rng := fmt.Sprintf("(and (<= 0 %s) (< %s %s) (< %s %s))", bi, bi, bj, bj, sv.L)
						// quantify over absolute positions of the backing array, so that (select row I) is the trigger
						quant := func(body string) string {
							vi, vj := bi, bj
							for k, v := range []string{bi, bj} {
								if off := dominantOffset(body, v); off != "" {
									av := q(strings.Trim(v, "|") + "@")
									body = strings.ReplaceAll(body, "(+ "+off+" "+v+")", av)
									body = strings.ReplaceAll(body, v, "(- "+av+" "+off+")")
									if k == 0 {
										vi = av
									} else {
										vj = av
									}
								}
							}
							return fmt.Sprintf("(forall ((%s Int) (%s Int)) %s)", vi, vj, body)
						}
						e.assume(quant(fmt.Sprintf("(=> %s (not %s))", rng, lessJI)))
						if stable {
							e.assume(quant(fmt.Sprintf("(=> (and %s (not %s)) (< (%s %s) (%s %s)))", rng, lessIJ, perm, bi, perm, bj)))
						}
						e.trusted["sorted-by-comparator (sort.Slice/SliceStable order the range by the verified comparator)"]++
					}
				}
			}
			return true
		}
	}
	reg("sort.Slice", []string{"E.*"}, sortFn(false))
	reg("sort.SliceStable", []string{"E.*"}, sortFn(true))
	reg("sort.Strings", []string{"E.string"}, func(f *frame, in ssa.Instruction, callee *ssa.Function, args []Val, pc string, h *Heap, nm string, resT types.Type) bool {
		e := f.e
		sv, ok := args[0].(SliceV)
		if !ok {
			e.havocHeapComp(h, "E.string")
			return true
		}
		arr := e.comp(h, "E.string", "Str", true)
		na := e.fresh("Hsorted.E.string", "(Array Int Str)")
		oldRow := fmt.Sprintf("(select %s %s)", arr, sv.B)
		e.useQuant = true
		e.useStrLe = true
		// ascending in the total order strle, a permutation of what was there (permutation part: lengths only), rest unchanged
		e.assumeGlobal(fmt.Sprintf("(forall ((j Int)) (! (=> (and (<= %s j) (< (+ j 1) (+ %s %s))) (strle (select %s j) (select %s (+ j 1)))) :pattern ((select %s j))))", sv.O, sv.O, sv.L, na, na, na))
		e.assumeGlobal(fmt.Sprintf("(forall ((j Int)) (! (=> (or (< j %s) (>= j (+ %s %s))) (= (select %s j) (select %s j))) :pattern ((select %s j))))", sv.O, sv.O, sv.L, na, oldRow, na))
		e.setComp(h, "E.string", fmt.Sprintf("(store %s %s %s)", arr, sv.B, na))
		return true
	})
	reg("slices.Reverse", []string{"E.*"}, func(f *frame, in ssa.Instruction, callee *ssa.Function, args []Val, pc string, h *Heap, nm string, resT types.Type) bool {
		e := f.e
		c := in.(ssa.CallInstruction).Common()
		st, ok := under(c.Args[0].Type()).(*types.Slice)
		sv, ok2 := args[0].(SliceV)
		if !ok || !ok2 {
			e.havocAll(h)
			return true
		}
		e.useQuant = true
		for _, cs := range e.elemComps(st.Elem()) {
			name, so := cs[0], cs[1]
			arr := e.comp(h, name, so, true)
			na := e.fresh("Hrev."+name, fmt.Sprintf("(Array Int %s)", so))
			oldRow := fmt.Sprintf("(select %s %s)", arr, sv.B)
			// new[off + k] = old[off + len-1-k]
			e.assumeGlobal(fmt.Sprintf("(forall ((j Int)) (! (=> (and (<= %s j) (< j (+ %s %s))) (= (select %s j) (select %s (- (+ %s %s %s) 1 j)))) :pattern ((select %s j))))", sv.O, sv.O, sv.L, na, oldRow, sv.O, sv.O, sv.L, na))
			e.assumeGlobal(fmt.Sprintf("(forall ((j Int)) (! (=> (or (< j %s) (>= j (+ %s %s))) (= (select %s j) (select %s j))) :pattern ((select %s j))))", sv.O, sv.O, sv.L, na, oldRow, na))
			e.setComp(h, name, fmt.Sprintf("(store %s %s %s)", arr, sv.B, na))
		}
		return true
	})

	// ----- interface methods, by name and shape -----
	invokeNatives = map[string]invokeFn{}
	invokeNativeMods = map[string][]string{}
	regI := func(key string, mods []string, fn invokeFn) {
		invokeNatives[key] = fn
		invokeNativeMods[key] = mods
	}
	regI("Write/1:2", wrG, func(f *frame, in ssa.Instruction, c *ssa.CallCommon, r string, args []Val, pc string, h *Heap, nm string, resT types.Type) bool {
		e := f.e
		s, _ := args[0].(SliceV)
		if isHashType(c.Value.Type()) {
			// hash.Hash: "It never returns an error" (documented); the hash absorbs exactly p
			hi := e.ghost(h, "crc_hi")
			e.setGhost(h, "crc_hi", hi, r, fmt.Sprintf("(+ (select %s %s) %s)", hi, r, s.L))
			last := e.ghost(h, "crc_last")
			e.setGhost(h, "crc_last", last, r, fmt.Sprintf("(slid %s %s %s)", s.B, s.O, s.L))
			f.setResult(in, TupleV{Sc{s.L}, Sc{"0"}})
			return true
		}
		f.writerPre(h, r, pc, in)
		rv := e.havocVal(nm, resT).(TupleV)
		n, er := e.scalar(rv[0]), e.scalar(rv[1])
		// io.Writer (A2): 0 <= n <= len(p); n < len(p) implies a non-nil error
		e.assume(fmt.Sprintf("(and (<= 0 %s) (<= %s %s) (=> (< %s %s) (not (= %s 0))))", n, n, s.L, n, s.L, er))
		f.writerOne(h, r, s.L, er)
		last := e.ghost(h, "wr_last")
		e.setGhost(h, "wr_last", last, r, fmt.Sprintf("(slid %s %s %s)", s.B, s.O, s.L))
		f.setResult(in, rv)
		return true
	})
	regI("Read/1:2", append([]string{"E.uint8"}, rdG...), func(f *frame, in ssa.Instruction, c *ssa.CallCommon, r string, args []Val, pc string, h *Heap, nm string, resT types.Type) bool {
		e := f.e
		s, _ := args[0].(SliceV)
		rv := e.havocVal(nm, resT).(TupleV)
		n := e.scalar(rv[0])
		e.assume(fmt.Sprintf("(and (<= 0 %s) (<= %s %s))", n, n, s.L))
		f.fillFromStream(h, s, nm, r, n)
		f.readerAdvance(h, r, n, pc)
		f.noteFault(h, e.scalar(rv[1]))
		f.setResult(in, rv)
		return true
	})
	regI("Seek/2:2", rdG, func(f *frame, in ssa.Instruction, c *ssa.CallCommon, r string, args []Val, pc string, h *Heap, nm string, resT types.Type) bool {
		e := f.e
		rv := e.havocVal(nm, resT).(TupleV)
		pos, er := e.scalar(rv[0]), e.scalar(rv[1])
		e.assume(fmt.Sprintf("(=> (= %s 0) (>= %s 0))", er, pos))
		// whence == io.SeekEnd: the result is size+offset with 0 <= size <= MaxInt64
		off, wh := e.scalar(args[0]), e.scalar(args[1])
		e.assume(fmt.Sprintf("(=> (and (= %s 0) (= %s 2)) (<= (- %s %s) 9223372036854775807))", er, wh, pos, off))
		// a seekable source's position is its absolute offset: SeekStart sets it, SeekCurrent moves it; a failed seek leaves
		// it unspecified. Other readers layered on the same source are not tracked: their positions become unknown.
		posArr := e.ghost(h, "rd_pos")
		before := e.define(nm+".pos0", "Int", fmt.Sprintf("(select %s %s)", posArr, r))
		for _, g := range []string{"G.rd_pos", "G.rd_left"} {
			e.havocHeapComp(h, g)
		}
		e.assume(fmt.Sprintf("(=> (and (= %s 0) (= %s 0)) (= %s %s))", er, wh, pos, off))
		e.assume(fmt.Sprintf("(=> (and (= %s 0) (= %s 1)) (= %s (+ %s %s)))", er, wh, pos, before, off))
		e.setGhost(h, "rd_pos", e.ghost(h, "rd_pos"), r, fmt.Sprintf("(ite (= %s 0) %s (select %s %s))", er, pos, e.ghost(h, "rd_pos"), r))
		f.noteFault(h, er)
		f.setResult(in, rv)
		return true
	})
	simple := func(mods []string) invokeFn {
		return func(f *frame, in ssa.Instruction, c *ssa.CallCommon, r string, args []Val, pc string, h *Heap, nm string, resT types.Type) bool {
			for _, m := range mods {
				f.e.havocHeapComp(h, m)
			}
			if resT != nil {
				f.setResult(in, f.e.havocVal(nm, resT))
			}
			return true
		}
	}
	regI("Close/0:1", nil, simple(nil))
	regI("Error/0:1", nil, simple(nil))
	regI("String/0:1", nil, simple(nil))
	regI("Sum32/0:1", nil, func(f *frame, in ssa.Instruction, c *ssa.CallCommon, r string, args []Val, pc string, h *Heap, nm string, resT types.Type) bool {
		e := f.e
		if !isHashType(c.Value.Type()) {
			f.setResult(in, e.havocVal(nm, resT))
			return true
		}
		// the checksum is a function of the hash object's history: of the bytes it absorbed since it was created or reset;
		// the CRC-32 of no bytes is 0
		hi := e.ghost(h, "crc_hi")
		cnt := fmt.Sprintf("(select %s %s)", hi, r)
		v := e.define(nm, "Int", fmt.Sprintf("(ite (= %s 0) 0 (crcsum %s %s))", cnt, r, cnt))
		e.assume(rangeFact(resT, v))
		f.setResult(in, Sc{v})
		return true
	})
	regI("Reset/0:0", []string{"G.crc_hi", "G.crc_lo", "G.crc_src", "G.crc_last"}, func(f *frame, in ssa.Instruction, c *ssa.CallCommon, r string, args []Val, pc string, h *Heap, nm string, resT types.Type) bool {
		e := f.e
		if isHashType(c.Value.Type()) {
			hi := e.ghost(h, "crc_hi")
			e.setGhost(h, "crc_hi", hi, r, "0") // hash.Hash.Reset: back to the initial state
			return true
		}
		for _, m := range []string{"G.crc_hi", "G.crc_lo", "G.crc_src", "G.crc_last"} {
			e.havocHeapComp(h, m)
		}
		return true
	})
	regI("Reset/1:0", nil, simple(nil)) // ResettableWriteCloser.Reset(io.Writer): A6 — does not write to the new destination
	regI("Reset/1:1", rdG, func(f *frame, in ssa.Instruction, c *ssa.CallCommon, r string, args []Val, pc string, h *Heap, nm string, resT types.Type) bool {
		// ResettableReader.Reset(io.Reader) error: the decompressor delivers a new stream afterwards
		f.newStream(h, r, nm)
		if resT != nil {
			f.setResult(in, f.e.havocVal(nm, resT))
		}
		return true
	})
	regI("Compressor/0:1", nil, simple(nil))
	regI("Compression/0:1", nil, simple(nil))
}

func isHashType(t types.Type) bool {
	n, ok := t.(*types.Named)
	return ok && n.Obj().Pkg() != nil && n.Obj().Pkg().Path() == "hash"
}

func markNonNil(e *Engine, v Val) {
	switch x := v.(type) {
	case PtrV:
		e.assume(fmt.Sprintf("(> %s pre)", x.L.Ref))
	case Sc:
		if _, ok := e.decls[x.T]; ok && e.decls[x.T] == "Int" {
			e.assume(fmt.Sprintf("(> %s pre)", x.T))
		}
	}
}

// variadicOperands finds the values stored into the backing array of a variadic []interface{} argument.
func variadicOperands(v ssa.Value) []ssa.Value {
	sl, ok := v.(*ssa.Slice)
	if !ok {
		return nil
	}
	al, ok := sl.X.(*ssa.Alloc)
	if !ok {
		return nil
	}
	var out []ssa.Value
	for _, ref := range *al.Referrers() {
		ia, ok := ref.(*ssa.IndexAddr)
		if !ok {
			continue
		}
		for _, r2 := range *ia.Referrers() {
			if st, ok := r2.(*ssa.Store); ok && st.Addr == ia {
				out = append(out, st.Val)
			}
		}
	}
	return out
}

// fillBytes: a reader may have overwritten the bytes of s; everything else of that array is unchanged.
func (f *frame) fillBytes(h *Heap, s SliceV, nm string) {
	e := f.e
	arr := e.comp(h, "E.uint8", "Int", true)
	na := e.fresh("Hrd.E.uint8", "(Array Int Int)")
	e.useQuant = true
	e.assumeGlobal(fmt.Sprintf("(forall ((j Int)) (! (=> (or (< j %s) (>= j (+ %s %s))) (= (select %s j) (select (select %s %s) j))) :pattern ((select %s j))))", s.O, s.O, s.L, na, arr, s.B, na))
	e.assumeGlobal(fmt.Sprintf("(forall ((j Int)) (! (and (<= 0 (select %s j)) (<= (select %s j) 255)) :pattern ((select %s j))))", na, na, na))
	e.setComp(h, "E.uint8", fmt.Sprintf("(store %s %s %s)", arr, s.B, na))
}

// fillFromStream: the first n bytes of s now hold what source r delivers at its current position; the rest of s may have
// been used as scratch (io.ReadFull and Read promise nothing about it), everything else of that array is unchanged.
func (f *frame) fillFromStream(h *Heap, s SliceV, nm string, r, n string) {
	e := f.e
	f.fillBytes(h, s, nm)
	arr := e.comp(h, "E.uint8", "Int", true)
	gen := e.ghost(h, "rd_gen")
	pos := e.ghost(h, "rd_pos")
	e.useQuant = true
	row := fmt.Sprintf("(select %s %s)", arr, s.B)
	e.assumeGlobal(fmt.Sprintf("(forall ((j Int)) (! (=> (and (<= %s j) (< j (+ %s %s))) (= (select %s j) (rdbyte %s (select %s %s) (+ (select %s %s) (- j %s))))) :pattern ((select %s j))))",
		s.O, s.O, n, row, r, gen, r, pos, r, s.O, row))
}

// readerSelf: a read on r may run wrapped readers underneath (whose ghost state changes), but r's own position and stream
// identity change only as the model of the read says. Returns a function that restores them after the havoc.
func (f *frame) readerSelf(h *Heap, r, nm string) func() {
	e := f.e
	p0 := e.define(nm+".pos0", "Int", fmt.Sprintf("(select %s %s)", e.ghost(h, "rd_pos"), r))
	g0 := e.define(nm+".gen0", "Int", fmt.Sprintf("(select %s %s)", e.ghost(h, "rd_gen"), r))
	return func() {
		e.setGhost(h, "rd_pos", e.ghost(h, "rd_pos"), r, p0)
		e.setGhost(h, "rd_gen", e.ghost(h, "rd_gen"), r, g0)
	}
}

// noteFault records (at key 0 of rd_fault) that a read ended with an error other than EOF / unexpected EOF.
func (f *frame) noteFault(h *Heap, er string) {
	e := f.e
	flt := e.ghost(h, "rd_fault")
	e.setGhost(h, "rd_fault", flt, "0", fmt.Sprintf("(or (select %s 0) (and (not (= %s 0)) (not (isEOF %s)) (not (isUEOF %s))))", flt, er, er, er))
}

// newStream: reader r now stands at the start of a new stream (fresh generation).
func (f *frame) newStream(h *Heap, r, nm string) string {
	e := f.e
	g := e.fresh(nm+".gen", "Int")
	gen := e.ghost(h, "rd_gen")
	e.setGhost(h, "rd_gen", gen, r, g)
	pos := e.ghost(h, "rd_pos")
	e.setGhost(h, "rd_pos", pos, r, "0")
	eof := e.ghost(h, "rd_eof")
	e.setGhost(h, "rd_eof", eof, r, "false")
	return g
}

// streamIsSlice: the stream of r (generation g) is the current content of slice s.
func (f *frame) streamIsSlice(h *Heap, r, g string, s SliceV) {
	e := f.e
	arr := e.comp(h, "E.uint8", "Int", true)
	e.useQuant = true
	e.assumeGlobal(fmt.Sprintf("(forall ((i Int)) (! (=> (and (<= 0 i) (< i %s)) (= (rdbyte %s %s i) (select (select %s %s) (+ %s i)))) :pattern ((rdbyte %s %s i))))", s.L, r, g, arr, s.B, s.O, r, g))
}

// setGhost stores a new value of a ghost component at one key (recorded so that frames can be checked syntactically).
func (e *Engine) setGhost(h *Heap, name, prev, key, val string) {
	e.setComp(h, "G."+name, fmt.Sprintf("(store %s %s %s)", prev, key, val))
	e.storeDefs[h.m["G."+name]] = storeDef{prev: prev, idx: key, val: val}
}

func (e *Engine) ghost(h *Heap, name string) string {
	return e.comp(h, "G."+name, ghostSorts[name], false)
}

// writerPre: C14(b) — no write is attempted on a sink that has already failed.
func (f *frame) writerPre(h *Heap, r string, pc string, in ssa.Instruction) {
	e := f.e
	failed := e.ghost(h, "wr_failed")
	e.ob(f, "pre", "no-write-after-failure: "+e.w.srcText(in.Pos(), in), []string{"C14"}, pc, fmt.Sprintf("(not (select %s %s))", failed, r), in.Pos())
}

func (f *frame) writerOne(h *Heap, r, plen, er string) {
	e := f.e
	failed := e.ghost(h, "wr_failed")
	offered := e.ghost(h, "wr_offered")
	calls := e.ghost(h, "wr_calls")
	e.setGhost(h, "wr_failed", failed, r, fmt.Sprintf("(or (select %s %s) (not (= %s 0)))", failed, r, er))
	e.setGhost(h, "wr_offered", offered, r, fmt.Sprintf("(+ (select %s %s) %s)", offered, r, plen))
	e.setGhost(h, "wr_calls", calls, r, fmt.Sprintf("(+ (select %s %s) 1)", calls, r))
}

// writerMany: io.Copy performs any number of writes totalling n bytes accepted.
func (f *frame) writerMany(h *Heap, r, n, er string) {
	e := f.e
	failed := e.ghost(h, "wr_failed")
	offered := e.ghost(h, "wr_offered")
	nf := e.fresh("copy.failed", "Bool")
	no := e.fresh("copy.offered", "Int")
	of := fmt.Sprintf("(select %s %s)", failed, r)
	oo := fmt.Sprintf("(select %s %s)", offered, r)
	e.assume(fmt.Sprintf("(and (=> %s %s) (=> (and %s (not %s)) (not (= %s 0))) (>= %s (+ %s %s)) (=> (not %s) (= %s (+ %s %s))))", of, nf, nf, of, er, no, oo, n, nf, no, oo, n))
	e.setGhost(h, "wr_failed", failed, r, nf)
	e.setGhost(h, "wr_offered", offered, r, no)
	calls := e.ghost(h, "wr_calls")
	e.setGhost(h, "wr_calls", calls, r, e.fresh("copy.calls", "Int"))
}

// readerAdvance: n bytes were consumed from source r.
func (f *frame) readerAdvance(h *Heap, r, n, pc string) {
	e := f.e
	pos := e.ghost(h, "rd_pos")
	e.setGhost(h, "rd_pos", pos, r, fmt.Sprintf("(+ (select %s %s) %s)", pos, r, n))
}

// implHavoc: an in-scope implementation of the method may run on the argument; havoc what those may modify.
func (f *frame) implHavoc(h *Heap, key string, arg Val) {
	e := f.e
	parts := strings.SplitN(key, "/", 2)
	for _, fn := range e.w.implByKey(parts[0], parts[1]) {
		m, all := e.w.modsOf(fn)
		// the bytes an in-scope Read/Write implementation moves are those of the buffer the caller handed over,
		// which the model of the library function accounts for itself
		m2 := map[string]bool{}
		for k := range m {
			// rd_fault: a fault inside a wrapped reader reaches the caller as the error the wrapper returns, and is noted there
			if k != "E.uint8" && k != "G.rd_fault" {
				m2[k] = true
			}
		}
		f.havocMods(h, m2, all)
	}
}

// isMemBuffer: *bytes.Buffer or *strings.Builder (a destination that keeps in memory everything written to it).
func isMemBuffer(t types.Type) bool {
	if p, ok := t.(*types.Pointer); ok {
		if n, ok := p.Elem().(*types.Named); ok && n.Obj().Pkg() != nil {
			full := n.Obj().Pkg().Path() + "." + n.Obj().Name()
			return full == "bytes.Buffer" || full == "strings.Builder"
		}
	}
	return false
}

func pureExternal(name string) bool {
	for _, p := range []string{"strings.", "strconv.", "fmt.", "errors.", "bytes.", "math.", "math/bits.", "unicode", "sort.Search", "path.", "path/filepath.", "time.", "(time.", "hash/crc32.", "(*strings.", "(*regexp.", "regexp."} {
		if strings.HasPrefix(name, p) {
			return true
		}
	}
	return false
}

// copyLoop models io.Copy(dst, src) for a destination whose Write method belongs to the verified packages as the loop
// it is: any number of dst.Write(p) calls, stopping at the first write that fails or is short, at a read error, or at
// the end of the source. The call-site clauses `call Copy#k invariant I` give the loop invariant; `copied` names the
// number of bytes written so far. Obligations: I holds before the copy (inv-init), every precondition of Write follows
// from I, and a complete write re-establishes I (inv-keep). Afterwards I is known wherever the copy stopped between
// two writes, and the state after a failed write is the one Write's contract (or body) describes.
func (f *frame) copyLoop(in ssa.Instruction, args []Val, pc string, h *Heap, nm string, resT types.Type, target *ssa.Function, recvArg Val) bool {
	e := f.e
	c := in.(ssa.CallInstruction).Common()
	src := e.scalar(args[1])
	invs := f.callClauses(in, "call-invariant")
	key := f.callKeyOf(in)
	mkEnv := func(hh *Heap, copied string) *Env {
		env := f.callEnv(in, c, args, hh)
		env.vars["copied"] = TV{Sc{copied}, types.Typ[types.Int64]}
		return env
	}
	for _, cl := range invs {
		ts, ls := e.conjuncts(mkEnv(h, "0"), cl.Expr, "")
		for i := range ts {
			e.ob(f, "inv-init", key+": "+cl.clabel(ls[i]), cl.tagsOr(f.tags), pc, ts[i], in.Pos())
		}
	}
	// state between two writes: whatever Write may change has changed; the source's own state has changed
	// (A7: the source holds no reference to the destination, its sink or its hashes)
	head0 := h.clone()
	mods, all := e.w.modsOf(target)
	hm := map[string]bool{}
	for k := range mods {
		hm[k] = true
	}
	for _, fn := range e.w.implByKey("Read", "1:2") {
		m, _ := e.w.modsOf(fn)
		for k := range m {
			if strings.HasPrefix(k, "G.wr_") || strings.HasPrefix(k, "G.crc_") || k == "E.uint8" {
				continue
			}
			hm[k] = true
		}
	}
	hm["G.rd_pos"], hm["G.rd_left"], hm["G.rd_eof"] = true, true, true
	touched, _ := f.touchedOf()
	f.havocModsT(h, hm, all, touched, nil, f.objFramed)
	e.bumpWater(nm + ".copy")
	copied := e.fresh(nm+".copied", "Int")
	e.assume(fmt.Sprintf("(and (>= %s 0) (<= %s 9223372036854775807))", copied, copied)) // io.Copy counts in an int64
	for _, cl := range invs {
		e.assumeIf(pc, e.evalBool(mkEnv(h, copied), cl.Expr))
	}
	head := h.clone()
	// one more write of an arbitrary buffer
	p := e.havocVal(nm+".p", types.NewSlice(types.Typ[types.Uint8])).(SliceV)
	e.assume(fmt.Sprintf("(and (> %s 0) (<= %s %s))", p.B, p.B, e.water()))
	saved, had := f.vals[in.(ssa.Value)]
	alive := f.staticCall(in, target, []Val{recvArg, p}, nil, pc, h, nm+".w", types.NewTuple(types.NewVar(0, nil, "", types.Typ[types.Int]), types.NewVar(0, nil, "", types.Universe.Lookup("error").Type())), in.Pos())
	var nw, ew string
	if tv, ok := f.vals[in.(ssa.Value)].(TupleV); ok && len(tv) == 2 && alive {
		nw, ew = e.scalar(tv[0]), e.scalar(tv[1])
	} else {
		nw, ew = e.fresh(nm+".nw", "Int"), e.fresh(nm+".ew", "Int")
	}
	if had {
		f.vals[in.(ssa.Value)] = saved
	}
	okW := e.define(nm+".wok", "Bool", fmt.Sprintf("(and (= %s 0) (= %s %s))", ew, nw, p.L))
	for _, cl := range invs {
		ts, ls := e.conjuncts(mkEnv(h, fmt.Sprintf("(+ %s %s)", copied, p.L)), cl.Expr, "")
		for i := range ts {
			e.ob(f, "inv-keep", key+": "+cl.clabel(ls[i]), cl.tagsOr(f.tags), and(pc, okW), ts[i], in.Pos())
		}
	}
	// where the copy stops
	which := e.fresh(nm+".stop", "Int")
	e.assume(fmt.Sprintf("(and (<= 0 %s) (<= %s 2) (=> (= %s 2) (not %s)))", which, which, which, okW))
	cEOF := fmt.Sprintf("(= %s 0)", which)
	cRd := fmt.Sprintf("(= %s 1)", which)
	cWr := fmt.Sprintf("(= %s 2)", which)
	merged := e.mergeHeaps([]string{and(pc, cEOF), and(pc, cRd), and(pc, cWr)}, []*Heap{head, head, h})
	*h = *merged
	rerr := e.newRef(nm + ".rderr")
	e.assume(fmt.Sprintf("(and (not (isEOF %s)) (> %s 0))", rerr, rerr))
	short := e.global("gv.io.ErrShortWrite", "Int")
	e.assume(fmt.Sprintf("(and (> %s 0) (not (isEOF %s)) (not (isUEOF %s)) (not (isCRC %s)))", short, short, short, short))
	nres := e.define(nm+".n", "Int", fmt.Sprintf("(ite %s (+ %s (ite (and (<= 0 %s) (<= %s %s)) %s 0)) %s)", cWr, copied, nw, nw, p.L, nw, copied))
	eres := e.define(nm+".err", "Int", fmt.Sprintf("(ite %s 0 (ite %s %s (ite (= %s 0) %s %s)))", cEOF, cRd, rerr, ew, short, ew))
	e.assume(fmt.Sprintf("(and (>= %s 0) (<= %s 9223372036854775807))", nres, nres))
	// the source: consumed exactly n bytes and reported end-of-file when the copy ended cleanly; a failed write may have
	// consumed more than was written
	extra := e.fresh(nm+".readahead", "Int")
	e.assume(fmt.Sprintf("(and (>= %s 0) (=> (not %s) (= %s 0)))", extra, cWr, extra))
	pos0 := e.ghost(head0, "rd_pos")
	e.setGhost(h, "rd_pos", e.ghost(h, "rd_pos"), src, fmt.Sprintf("(+ (select %s %s) %s %s)", pos0, src, nres, extra))
	eof := e.ghost(h, "rd_eof")
	e.setGhost(h, "rd_eof", eof, src, fmt.Sprintf("(or (select %s %s) %s)", eof, src, cEOF))
	f.setResult(in, TupleV{Sc{nres}, Sc{eres}})
	return true
}
