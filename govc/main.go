package main

func main() {}
