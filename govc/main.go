// govc: a contract-based deductive verifier for the Go code of foxglove/mcap (see /verif/DESIGN.md).
package main

import (
	"flag"
	"fmt"
	"os"
	"regexp"
	"sort"
	"strings"
	"time"

	"golang.org/x/tools/go/ssa"
)

var repoDir = "/repo"
var verifDir = "/verif"

var pkgDirs = map[string]string{"mcap": "go/mcap", "ros": "go/ros", "ros1msg": "go/ros/ros1msg"}

func main() {
	if r := os.Getenv("GOVC_REPO"); r != "" {
		repoDir = r
	}
	if len(os.Args) < 2 {
		fmt.Fprintln(os.Stderr, "usage: govc <verify|check|ledger|selftest|axioms> ...")
		os.Exit(2)
	}
	switch os.Args[1] {
	case "verify":
		cmdVerify(os.Args[2:])
	case "check":
		cmdCheck(os.Args[2:])
	case "ssa":
		w := loadWorld([]string{os.Args[2]})
		re := regexp.MustCompile(os.Args[3])
		for _, fn := range w.funcs {
			if re.MatchString(funcKey(fn)) {
				fn.WriteTo(os.Stdout)
				for h, li := range w.loopsOf(fn) {
					fmt.Printf("loop header b%d ordinal %d\n", h.Index, li.ordinal)
				}
			}
		}
	case "selftest":
		os.Exit(cmdSelftest())
	case "axioms":
		os.Exit(cmdAxioms())
	default:
		fmt.Fprintln(os.Stderr, "unknown command", os.Args[1])
		os.Exit(2)
	}
}

func loadWorld(pkgs []string) *World {
	var dirs []string
	for _, p := range pkgs {
		d, ok := pkgDirs[p]
		if !ok {
			fmt.Fprintln(os.Stderr, "unknown package", p)
			os.Exit(2)
		}
		dirs = append(dirs, d)
	}
	w, err := load(repoDir, dirs, verifDir+"/stubs")
	if err != nil {
		fmt.Fprintln(os.Stderr, "govc: load failed:", err)
		os.Exit(2)
	}
	return w
}

// cmdVerify: development command — verify functions matching a regexp and print every obligation that fails.
func cmdVerify(args []string) {
	fs := flag.NewFlagSet("verify", flag.ExitOnError)
	pkg := fs.String("pkg", "mcap", "package(s), comma separated")
	pat := fs.String("func", ".", "regexp on function keys")
	timeout := fs.Int("t", 10, "solver timeout (s)")
	dump := fs.String("dump", "", "directory to dump VCs")
	verbose := fs.Bool("v", false, "list all obligations")
	tag := fs.String("tag", "", "only obligations with this tag")
	safety := fs.String("safety", "C10", "default safety tag")
	thorough := fs.Bool("thorough", false, "all solvers")
	fs.Parse(args)
	t0 := time.Now()
	w := loadWorld(strings.Split(*pkg, ","))
	fmt.Printf("load+ssa %.1fs, %d functions\n", time.Since(t0).Seconds(), len(w.funcs))
	for _, e := range w.contractErrors() {
		fmt.Println("CONTRACT ERROR:", e)
	}
	re := regexp.MustCompile(*pat)
	var units []*UnitResult
	for _, fn := range w.funcs {
		if !re.MatchString(funcKey(fn)) {
			continue
		}
		if fn.Origin() != nil && fn.Origin() != fn {
			// instantiations: verify each
		}
		t1 := time.Now()
		u := w.verifyUnit(fn, []string{*safety})
		u.Seconds = time.Since(t1).Seconds()
		units = append(units, u)
	}
	filter := func(o *Oblig) bool {
		if *tag == "" {
			return true
		}
		for _, t := range o.Tags {
			if t == *tag {
				return true
			}
		}
		return false
	}
	t2 := time.Now()
	solveAll(units, filter, *timeout, *thorough, *dump)
	fmt.Printf("solve %.1fs\n", time.Since(t2).Seconds())
	total, failed := 0, 0
	for _, u := range units {
		nf := 0
		n := 0
		for _, o := range u.Obs {
			if !filter(o) {
				continue
			}
			n++
			if o.Status != "unsat" {
				nf++
			}
		}
		total += n
		failed += nf
		fmt.Printf("%-55s obligations=%d failed=%d gen=%.2fs%s\n", u.Pkg+" "+u.Key, n, nf, u.Seconds, notes(u))
		for _, se := range u.SpecErrs {
			fmt.Println("    SPEC ERROR:", se)
		}
		for _, d := range u.Detached {
			fmt.Println("    DETACHED:", d)
		}
		if u.Vacuous != "" {
			fmt.Println("    VACUOUS: contradictory assumptions at the return (", u.Vacuous, ")")
		}
		for _, d := range u.DeadRets {
			fmt.Println("    UNREACHABLE RETURN:", d)
		}
		for _, d := range u.Stale {
			fmt.Println("    STALE CLAUSE:", d)
		}
		for _, o := range u.Obs {
			if !filter(o) {
				continue
			}
			if o.Status != "unsat" || *verbose {
				fmt.Printf("    %-8s %-7s %s   (%s:%d) %.2fs %v\n", o.Status, o.Solver, o.name, shortFile(o.Pos.Filename), o.Pos.Line, o.Seconds, o.Tags)
			}
		}
	}
	fmt.Printf("TOTAL obligations=%d failed=%d\n", total, failed)
}

func notes(u *UnitResult) string {
	var parts []string
	add := func(label string, m map[string]int) {
		if len(m) == 0 {
			return
		}
		var ks []string
		for k, v := range m {
			ks = append(ks, fmt.Sprintf("%s×%d", k, v))
		}
		sort.Strings(ks)
		parts = append(parts, label+"="+strings.Join(ks, ","))
	}
	add("out-of-subset", u.Unsupp)
	add("unmodelled", u.Unmod)
	add("imprecise", u.Imprecise)
	if len(parts) == 0 {
		return ""
	}
	return "  " + strings.Join(parts, " ")
}

func shortFile(s string) string {
	i := strings.LastIndex(s, "/")
	return s[i+1:]
}



var _ = ssa.InstantiateGenerics

// cmdSelftest runs the semantics conformance suite (/verif/semtest): ok* functions must verify completely,
// bad* functions (and "leaky") must have an obligation that is refuted or at least not discharged.
func cmdSelftest() int {
	w, err := load(verifDir+"/semtest", []string{"."}, verifDir+"/stubs")
	if err != nil {
		fmt.Println("selftest: load failed:", err)
		return 2
	}
	for _, e := range w.contractErrors() {
		fmt.Println("CONTRACT ERROR:", e)
	}
	var units []*UnitResult
	for _, fn := range w.funcs {
		units = append(units, w.verifyUnit(fn, []string{"SEM"}))
	}
	solveAll(units, nil, 10, false, os.Getenv("GOVC_DUMP"))
	bad := 0
	nOK, nBad := 0, 0
	for _, u := range units {
		name := u.Fn.Name()
		if u.Fn.Parent() != nil {
			name = u.Fn.Parent().Name() // closures count with their parent
		}
		expectFail := strings.HasPrefix(name, "bad") || name == "leaky"
		if !strings.HasPrefix(name, "ok") && !expectFail {
			continue
		}
		failed, refuted := 0, 0
		var fl []string
		for _, o := range u.Obs {
			if o.Status != "unsat" {
				failed++
				fl = append(fl, fmt.Sprintf("%s[%s]", o.name, o.Status))
				if o.Status == "sat" {
					refuted++
				}
			}
		}
		for _, se := range u.SpecErrs {
			fmt.Printf("SELFTEST spec error in %s: %s\n", u.Key, se)
			bad++
		}
		if u.Fn.Parent() != nil {
			// a closure of a bad* function need not fail itself
			if !expectFail && failed > 0 {
				fmt.Printf("SELFTEST FAIL: %s should verify but %v\n", u.Key, fl)
				bad++
			}
			continue
		}
		if expectFail {
			nBad++
			// the failure may sit in the function or in one of its closures' call-site obligations
			if failed == 0 {
				fmt.Printf("SELFTEST FAIL: %s should be refuted but all %d obligations were discharged\n", u.Key, len(u.Obs))
				bad++
			}
		} else {
			nOK++
			if failed > 0 {
				fmt.Printf("SELFTEST FAIL: %s should verify but %v\n", u.Key, fl)
				bad++
			}
		}
	}
	fmt.Printf("selftest: %d ok-functions, %d bad-functions, %d mismatches\n", nOK, nBad, bad)
	if bad > 0 {
		return 1
	}
	return 0
}
