// govc: replaying solver counterexamples against the real code (go test -overlay; nothing is written to /repo).
package main

import (
	"go/ast"
	"go/token"
	"context"
	"fmt"
	"go/types"
	"os"
	"os/exec"
	"path/filepath"
	"regexp"
	"strconv"
	"strings"
	"time"

	"golang.org/x/tools/go/ssa"
)

var valueRe = regexp.MustCompile(`\(\s*(\S.*?)\s+(\(- \d+\)|-?\d+|true|false)\s*\)`)

// getValues re-solves the obligation with the full context and asks for the values of terms.
func (e *Engine) getValues(o *Oblig, terms []string, pins ...string) (map[string]string, bool) {
	vc := e.sliceVC(o, true, terms)
	for _, rf := range e.replayFacts {
		if strings.Contains(vc, "(declare-const "+rf[0]+" ") {
			pins = append(pins, rf[1])
		}
	}
	if len(pins) > 0 {
		// pin the values of an earlier model so that both rounds describe the same counterexample
		vc = strings.Replace(vc, "(check-sat)", strings.Join(pins, "\n")+"\n(check-sat)", 1)
	}
	for _, sp := range []solverSpec{solvers[0], solvers[2]} {
		r, out, _ := runSolver(sp, vc, 20)
		if d := os.Getenv("GOVC_DEBUG_REPLAY"); d != "" {
			os.MkdirAll(d, 0o755)
			os.WriteFile(filepath.Join(d, sanitizeFile(o.name)+"."+sp.name+".smt2"), []byte(vc), 0o644)
			os.WriteFile(filepath.Join(d, sanitizeFile(o.name)+"."+sp.name+".out"), []byte(out), 0o644)
		}
		if r != "sat" {
			continue
		}
		vals := map[string]string{}
		// the answer is a list of (term value) pairs in the order asked; read it positionally
		i := strings.Index(out, "((")
		if i < 0 {
			continue
		}
		pairs := parseSexprList(out[i:])
		// only the terms that were actually declared were asked for: recompute that list
		asked := askedTerms(vc)
		for k, pr := range pairs {
			if k < len(asked) {
				vals[asked[k]] = pr
			}
		}
		return vals, true
	}
	return nil, false
}

// askedTerms extracts the terms of the (get-value (...)) command of a VC, in order.
func askedTerms(vc string) []string {
	i := strings.LastIndex(vc, "(get-value (")
	if i < 0 {
		return nil
	}
	body := vc[i+len("(get-value ("):]
	var out []string
	depth := 0
	start := -1
	inBar := false
	for k := 0; k < len(body); k++ {
		c := body[k]
		if c == '|' {
			inBar = !inBar
			if depth == 0 && inBar {
				start = k
			} else if depth == 0 && !inBar {
				out = append(out, body[start:k+1])
				start = -1
			}
			continue
		}
		if inBar {
			continue
		}
		switch c {
		case '(':
			if depth == 0 {
				start = k
			}
			depth++
		case ')':
			if depth == 0 {
				return out
			}
			depth--
			if depth == 0 {
				out = append(out, body[start:k+1])
				start = -1
			}
		}
	}
	return out
}

// parseSexprList reads "((t v) (t v) ...)" and returns the value of each pair as a decimal/boolean string.
func parseSexprList(s string) []string {
	var out []string
	depth := 0
	inBar := false
	pairStart := -1
	for k := 0; k < len(s); k++ {
		c := s[k]
		if c == '|' {
			inBar = !inBar
			continue
		}
		if inBar {
			continue
		}
		switch c {
		case '(':
			depth++
			if depth == 2 {
				pairStart = k
			}
		case ')':
			if depth == 2 && pairStart >= 0 {
				pair := s[pairStart+1 : k]
				out = append(out, lastValue(pair))
				pairStart = -1
			}
			depth--
			if depth == 0 {
				return out
			}
		}
	}
	return out
}

// lastValue takes "term value" and returns value, normalising (- n) to -n.
func lastValue(pair string) string {
	pair = strings.TrimSpace(pair)
	if strings.HasSuffix(pair, ")") {
		// value is a parenthesised expression such as (- 5)
		depth := 0
		for k := len(pair) - 1; k >= 0; k-- {
			if pair[k] == ')' {
				depth++
			} else if pair[k] == '(' {
				depth--
				if depth == 0 {
					v := strings.TrimSpace(pair[k+1 : len(pair)-1])
					if strings.HasPrefix(v, "- ") {
						return "-" + strings.TrimSpace(v[2:])
					}
					return v
				}
			}
		}
	}
	k := strings.LastIndexAny(pair, " \n\t")
	return pair[k+1:]
}

// replayBuffer builds a Go test calling a free function of byte slices, strings, integers and booleans with the
// model's arguments. ok=false when the function has another shape or the model is too large to materialise.
func (w *World) replayBuffer(u *UnitResult, o *Oblig) (string, bool) {
	fn := u.Fn
	if fn.Signature.Recv() != nil || fn.Parent() != nil || o.In != o.Func && false {
		return "", false
	}
	e := u.engine
	type argInfo struct {
		name string
		t    types.Type
	}
	var args []argInfo
	var terms []string
	for _, p := range fn.Params {
		switch t := under(p.Type()).(type) {
		case *types.Slice:
			if b, ok := under(t.Elem()).(*types.Basic); !ok || b.Kind() != types.Uint8 {
				return "", false
			}
		case *types.Basic:
			if t.Info()&(types.IsInteger|types.IsBoolean|types.IsString) == 0 {
				return "", false
			}
		default:
			return "", false
		}
		args = append(args, argInfo{p.Name(), p.Type()})
	}
	mv := map[string]string{}
	for _, m := range e.modelVars {
		mv[m.Name] = m.Term
		terms = append(terms, m.Term)
	}
	// prefer a counterexample with small buffers: ask for one first, fall back to whatever the solver offers
	var vals map[string]string
	ok := false
	var sizePins []string
	for _, bound := range []int{64, 4096, 65536, 0} {
		sizePins = nil
		if bound > 0 {
			for _, a := range args {
				if _, isSl := under(a.t).(*types.Slice); isSl {
					if t, have := mv[a.name+".len"]; have {
						sizePins = append(sizePins, fmt.Sprintf("(assert (<= %s %d))", t, bound))
					}
				} else if isStr(a.t) {
					sizePins = append(sizePins, fmt.Sprintf("(assert (<= (slen %s) %d))", mv[a.name], bound))
				}
			}
			if len(sizePins) == 0 {
				continue
			}
		}
		if vals, ok = e.getValues(o, terms, sizePins...); ok {
			break
		}
	}
	if !ok {
		return "", false
	}
	num := func(name string) (int64, bool) {
		v, ok := vals[mv[name]]
		if !ok {
			return 0, false
		}
		n, err := strconv.ParseInt(v, 10, 64)
		if err != nil {
			u, err2 := strconv.ParseUint(v, 10, 64)
			if err2 != nil {
				return 0, false
			}
			return int64(u), true
		}
		return n, true
	}
	// second round: bytes of slices / strings
	var byteTerms []string
	lens := map[string]int64{}
	for _, a := range args {
		if _, isSl := under(a.t).(*types.Slice); isSl {
			l, ok := num(a.name + ".len")
			if !ok || l < 0 || l > 65536 {
				return "", false
			}
			lens[a.name] = l
			arr := e.initials["E.uint8"]
			if arr == "" {
				continue
			}
			for i := int64(0); i < l; i++ {
				byteTerms = append(byteTerms, fmt.Sprintf("(select (select %s %s) (+ %s %d))", arr, mv[a.name+".base"], mv[a.name+".off"], i))
			}
		} else if isStr(a.t) {
			byteTerms = append(byteTerms, fmt.Sprintf("(slen %s)", mv[a.name]))
		}
	}
	bvals := map[string]string{}
	if len(byteTerms) > 0 {
		var pins []string
		for _, t := range terms {
			if v, ok := vals[t]; ok && v != "" {
				sv := v
				if strings.HasPrefix(sv, "-") {
					sv = "(- " + sv[1:] + ")"
				}
				if e.decls[t] == "Int" || e.decls[t] == "Bool" {
					pins = append(pins, fmt.Sprintf("(assert (= %s %s))", t, sv))
				}
			}
		}
		bv, ok := e.getValues(o, append(append([]string{}, terms...), byteTerms...), append(pins, sizePins...)...)
		if ok {
			bvals = bv
		}
	}
	var decl, call []string
	for _, a := range args {
		switch t := under(a.t).(type) {
		case *types.Slice:
			_ = t
			l := lens[a.name]
			var bs []string
			arr := e.initials["E.uint8"]
			for i := int64(0); i < l; i++ {
				v := bvals[fmt.Sprintf("(select (select %s %s) (+ %s %d))", arr, mv[a.name+".base"], mv[a.name+".off"], i)]
				n, err := strconv.Atoi(v)
				if err != nil || n < 0 || n > 255 {
					n = 0
				}
				bs = append(bs, strconv.Itoa(n))
			}
			c, _ := num(a.name + ".cap")
			if c < l || c > 1<<20 {
				c = l
			}
			decl = append(decl, fmt.Sprintf("\t%s := make([]byte, %d, %d)\n\tcopy(%s, []byte{%s})", a.name, l, c, a.name, strings.Join(bs, ", ")))
		case *types.Basic:
			switch {
			case t.Info()&types.IsBoolean != 0:
				decl = append(decl, fmt.Sprintf("\t%s := %s", a.name, vals[mv[a.name]]))
			case t.Info()&types.IsString != 0:
				ln, _ := strconv.Atoi(bvals[fmt.Sprintf("(slen %s)", mv[a.name])])
				if ln > 65536 {
					return "", false
				}
				decl = append(decl, fmt.Sprintf("\t%s := string(make([]byte, %d))", a.name, ln))
			default:
				v, ok := vals[mv[a.name]]
				if !ok {
					v = "0"
				}
				decl = append(decl, fmt.Sprintf("\tvar %s %s = %s", a.name, types.TypeString(a.t, func(p *types.Package) string { return "" }), v))
			}
		}
		call = append(call, a.name)
	}
	variadic := ""
	if fn.Signature.Variadic() {
		variadic = "..."
	}
	if o.Kind == "post" && o.clause != nil {
		// a violated postcondition: call the real function and evaluate the clause on what it really returns
		if src, ok := w.replayPost(fn, o, decl, call, variadic); ok {
			return src, true
		}
		return "", false
	}
	src := fmt.Sprintf(`package %s

// Generated by govc from the solver's counterexample for
//   %s
// It calls the real function with the model's arguments; a panic reproduces the violation.

import "testing"

func TestGovcReplay(t *testing.T) {
	defer func() {
		if r := recover(); r != nil {
			t.Fatalf("REPRODUCED: %%v", r)
		}
	}()
%s
	%s(%s%s)
}
`, w.pkgOf(fn).Pkg.Name(), o.name, strings.Join(decl, "\n"), fn.Name(), strings.Join(call, ", "), variadic)
	return src, true
}

// runOverlayTest compiles the replay into the package through -overlay and runs it.
func runOverlayTest(w *World, fn *ssa.Function, goFile string) (string, bool) {
	pkgDir := ""
	for _, p := range w.pkgs {
		if p.Types == w.pkgOf(fn).Pkg && len(p.GoFiles) > 0 {
			pkgDir = filepath.Dir(p.GoFiles[0])
		}
	}
	if pkgDir == "" {
		return "package directory not found", false
	}
	tmp, err := os.MkdirTemp("", "govc-replay")
	if err != nil {
		return err.Error(), false
	}
	defer os.RemoveAll(tmp)
	ov := filepath.Join(tmp, "ov.json")
	os.WriteFile(ov, []byte(fmt.Sprintf(`{"Replace":{%q:%q}}`, filepath.Join(pkgDir, "zz_govc_replay_test.go"), goFile)), 0o644)
	ctx, cancel := context.WithTimeout(context.Background(), 120*time.Second)
	defer cancel()
	cmd := exec.CommandContext(ctx, "go", "test", "-overlay", ov, "-vet=off", "-count=1", "-timeout", "60s", "-run", "^TestGovcReplay$", ".")
	cmd.Dir = pkgDir
	env := []string{}
	for _, kv := range os.Environ() {
		if strings.HasPrefix(kv, "GOFLAGS=") {
			continue
		}
		env = append(env, kv)
	}
	cmd.Env = append(env, "GOFLAGS=", "GOPROXY=off", "GOSUMDB=off", "GOTOOLCHAIN=local")
	out, _ := cmd.CombinedOutput()
	s := string(out)
	failed := strings.Contains(s, "REPRODUCED") || strings.Contains(s, "panic:") || strings.Contains(s, "test timed out")
	if len(s) > 4000 {
		s = s[:4000]
	}
	return s, failed
}

// ---------- replay of postconditions: contract clause -> Go ----------

// specToGo translates a contract expression over parameters and results into Go source evaluating to bool (or to a
// value). Integers are compared as *big.Int (helper I) so that int/uintN mixes mean what the mathematical clause means.
type specGo struct {
	w      *World
	fn     *ssa.Function
	types  map[string]types.Type
	ok     bool
	bound  map[string]bool
	inOld  bool
	slices map[string]bool
}

func (g *specGo) fail() string { g.ok = false; return "false" }

func (g *specGo) typeOf(x ast.Expr) types.Type {
	switch n := x.(type) {
	case *ast.ParenExpr:
		return g.typeOf(n.X)
	case *ast.Ident:
		if g.bound[n.Name] {
			return types.Typ[types.Int]
		}
		return g.types[n.Name]
	case *ast.SelectorExpr:
		t := g.typeOf(n.X)
		if t == nil {
			return nil
		}
		if p, ok := under(t).(*types.Pointer); ok {
			t = p.Elem()
		}
		if st, ok := under(t).(*types.Struct); ok {
			for i := 0; i < st.NumFields(); i++ {
				if st.Field(i).Name() == n.Sel.Name {
					return st.Field(i).Type()
				}
			}
		}
	case *ast.IndexExpr:
		t := g.typeOf(n.X)
		if t == nil {
			return nil
		}
		if sl, ok := under(t).(*types.Slice); ok {
			return sl.Elem()
		}
		if isStr(t) {
			return types.Typ[types.Uint8]
		}
	case *ast.BasicLit:
		if n.Kind == token.INT {
			return types.Typ[types.Int]
		}
	case *ast.BinaryExpr:
		switch n.Op {
		case token.ADD, token.SUB, token.MUL:
			return types.Typ[types.Int]
		}
		return types.Typ[types.Bool]
	case *ast.CallExpr:
		if id, ok := n.Fun.(*ast.Ident); ok {
			switch id.Name {
			case "len", "le16at", "le32at", "le64at", "uint8", "uint16", "uint32", "uint64", "int", "int64", "wrap64", "umin", "umax":
				return types.Typ[types.Int]
			case "old":
				if len(n.Args) == 1 {
					return g.typeOf(n.Args[0])
				}
			case "ite":
				if len(n.Args) == 3 {
					return g.typeOf(n.Args[1])
				}
			}
		}
	}
	return nil
}

func (g *specGo) isNum(x ast.Expr) bool {
	t := g.typeOf(x)
	return t != nil && isInt(t)
}

// num translates an integer-valued expression to a *big.Int Go expression.
func (g *specGo) num(x ast.Expr) string {
	switch n := x.(type) {
	case *ast.ParenExpr:
		return g.num(n.X)
	case *ast.BasicLit:
		return fmt.Sprintf("B(%q)", n.Value)
	case *ast.BinaryExpr:
		switch n.Op {
		case token.ADD:
			return fmt.Sprintf("add(%s, %s)", g.num(n.X), g.num(n.Y))
		case token.SUB:
			return fmt.Sprintf("sub(%s, %s)", g.num(n.X), g.num(n.Y))
		case token.MUL:
			return fmt.Sprintf("mul(%s, %s)", g.num(n.X), g.num(n.Y))
		}
		return "B(\"0\")" + g.fail()[:0]
	case *ast.CallExpr:
		if id, ok := n.Fun.(*ast.Ident); ok {
			switch id.Name {
			case "len":
				return fmt.Sprintf("I(len(%s))", g.val(n.Args[0]))
			case "le16at", "le32at", "le64at":
				k := map[string]int{"le16at": 2, "le32at": 4, "le64at": 8}[id.Name]
				return fmt.Sprintf("le(%s, %s, %d)", g.val(n.Args[0]), g.num(n.Args[1]), k)
			case "uint8", "uint16", "uint32", "uint64", "wrap64":
				bits := map[string]int{"uint8": 8, "uint16": 16, "uint32": 32, "uint64": 64, "wrap64": 64}[id.Name]
				return fmt.Sprintf("wrapU(%s, %d)", g.num(n.Args[0]), bits)
			case "int", "int64":
				return fmt.Sprintf("wrapS(%s, 64)", g.num(n.Args[0]))
			case "old":
				o := g.inOld
				g.inOld = true
				r := g.num(n.Args[0])
				g.inOld = o
				return r
			case "ite":
				return fmt.Sprintf("iteB(%s, %s, %s)", g.boolE(n.Args[0]), g.num(n.Args[1]), g.num(n.Args[2]))
			case "umin", "umax":
				return fmt.Sprintf("%s(%s, %s)", id.Name, g.num(n.Args[0]), g.num(n.Args[1]))
			}
		}
		g.ok = false
		return "B(\"0\")"
	}
	return fmt.Sprintf("I(%s)", g.val(x))
}

// val translates a non-arithmetic value expression (identifier, field, element) to Go.
func (g *specGo) val(x ast.Expr) string {
	switch n := x.(type) {
	case *ast.ParenExpr:
		return g.val(n.X)
	case *ast.Ident:
		if n.Name == "nil" || n.Name == "true" || n.Name == "false" || g.bound[n.Name] {
			return n.Name
		}
		if _, ok := g.types[n.Name]; !ok {
			g.ok = false
			return "nil"
		}
		if g.inOld && g.slices[n.Name] {
			return "old_" + n.Name
		}
		return "v_" + n.Name
	case *ast.SelectorExpr:
		return g.val(n.X) + "." + n.Sel.Name
	case *ast.IndexExpr:
		return fmt.Sprintf("%s[idx(%s)]", g.val(n.X), g.num(n.Index))
	case *ast.CallExpr:
		if id, ok := n.Fun.(*ast.Ident); ok && id.Name == "old" && len(n.Args) == 1 {
			o := g.inOld
			g.inOld = true
			r := g.val(n.Args[0])
			g.inOld = o
			return r
		}
	}
	g.ok = false
	return "nil"
}

func (g *specGo) boolE(x ast.Expr) string {
	switch n := x.(type) {
	case *ast.ParenExpr:
		return "(" + g.boolE(n.X) + ")"
	case *ast.UnaryExpr:
		if n.Op == token.NOT {
			return "!(" + g.boolE(n.X) + ")"
		}
	case *ast.BinaryExpr:
		switch n.Op {
		case token.LAND:
			return "(" + g.boolE(n.X) + " && " + g.boolE(n.Y) + ")"
		case token.LOR:
			return "(" + g.boolE(n.X) + " || " + g.boolE(n.Y) + ")"
		case token.EQL, token.NEQ, token.LSS, token.LEQ, token.GTR, token.GEQ:
			if g.isNum(n.X) || g.isNum(n.Y) {
				return fmt.Sprintf("(%s.Cmp(%s) %s 0)", g.num(n.X), g.num(n.Y), n.Op.String())
			}
			if n.Op == token.EQL || n.Op == token.NEQ {
				tx, ty := g.typeOf(n.X), g.typeOf(n.Y)
				if (tx != nil && isBoolT(tx)) || (ty != nil && isBoolT(ty)) {
					return fmt.Sprintf("((%s) %s (%s))", g.boolE(n.X), n.Op.String(), g.boolE(n.Y))
				}
				return fmt.Sprintf("(%s %s %s)", g.val(n.X), n.Op.String(), g.val(n.Y))
			}
		}
	case *ast.CallExpr:
		if id, ok := n.Fun.(*ast.Ident); ok {
			switch id.Name {
			case "imp":
				return "(!(" + g.boolE(n.Args[0]) + ") || " + g.boolE(n.Args[1]) + ")"
			case "forall", "exists":
				if len(n.Args) == 4 {
					v, ok := n.Args[0].(*ast.Ident)
					if !ok {
						return g.fail()
					}
					g.bound[v.Name] = true
					body := g.boolE(n.Args[3])
					lo, hi := g.num(n.Args[1]), g.num(n.Args[2])
					delete(g.bound, v.Name)
					return fmt.Sprintf("quant(%v, %s, %s, func(%s int) bool { return %s })", id.Name == "forall", lo, hi, v.Name, body)
				}
			case "fresh":
				return "true" // freshness of an allocation is not observable from a test
			case "old":
				o := g.inOld
				g.inOld = true
				r := g.boolE(n.Args[0])
				g.inOld = o
				return r
			default:
				if sf, ok := g.w.specFunc(id.Name); ok && len(sf.Params) == 0 {
					return g.boolE(sf.Body)
				}
			}
		}
	case *ast.Ident:
		if n.Name == "true" || n.Name == "false" {
			return n.Name
		}
		return g.val(n)
	}
	return g.fail()
}

const replayHelpers = `
type integer interface {
	~int | ~int8 | ~int16 | ~int32 | ~int64 | ~uint | ~uint8 | ~uint16 | ~uint32 | ~uint64
}

func I[T integer](x T) *big.Int {
	if x < 0 {
		return big.NewInt(int64(x))
	}
	return new(big.Int).SetUint64(uint64(x))
}
func B(s string) *big.Int { n, _ := new(big.Int).SetString(s, 0); return n }
func add(a, b *big.Int) *big.Int { return new(big.Int).Add(a, b) }
func sub(a, b *big.Int) *big.Int { return new(big.Int).Sub(a, b) }
func mul(a, b *big.Int) *big.Int { return new(big.Int).Mul(a, b) }
func idx(a *big.Int) int {
	if !a.IsInt64() {
		panic("index out of the range of the clause")
	}
	return int(a.Int64())
}
func le(s []byte, off *big.Int, k int) *big.Int {
	o := idx(off)
	r := new(big.Int)
	for i := k - 1; i >= 0; i-- {
		r.Lsh(r, 8)
		r.Or(r, big.NewInt(int64(s[o+i])))
	}
	return r
}
func wrapU(a *big.Int, bits uint) *big.Int {
	m := new(big.Int).Lsh(big.NewInt(1), bits)
	return new(big.Int).Mod(a, m)
}
func wrapS(a *big.Int, bits uint) *big.Int {
	r := wrapU(a, bits)
	if r.Bit(int(bits)-1) == 1 {
		r.Sub(r, new(big.Int).Lsh(big.NewInt(1), bits))
	}
	return r
}
func iteB(c bool, a, b *big.Int) *big.Int {
	if c {
		return a
	}
	return b
}
func umin(a, b *big.Int) *big.Int { return iteB(a.Cmp(b) <= 0, a, b) }
func umax(a, b *big.Int) *big.Int { return iteB(a.Cmp(b) >= 0, a, b) }
func quant(all bool, lo, hi *big.Int, f func(int) bool) bool {
	for i := idx(lo); i < idx(hi); i++ {
		if f(i) != all {
			return !all
		}
	}
	return all
}
`

func (w *World) replayPost(fn *ssa.Function, o *Oblig, decl, call []string, variadic string) (string, bool) {
	g := &specGo{w: w, fn: fn, types: map[string]types.Type{}, ok: true, bound: map[string]bool{}, slices: map[string]bool{}}
	var snap []string
	for _, p := range fn.Params {
		g.types[p.Name()] = p.Type()
		if _, isSl := under(p.Type()).(*types.Slice); isSl {
			g.slices[p.Name()] = true
			snap = append(snap, fmt.Sprintf("\told_%s := append([]byte{}, %s...); _ = old_%s", p.Name(), p.Name(), p.Name()))
		}
	}
	res := fn.Signature.Results()
	var lhs, binds []string
	for i := 0; i < res.Len(); i++ {
		r := res.At(i)
		v := fmt.Sprintf("v_r%d", i)
		lhs = append(lhs, v)
		g.types[fmt.Sprintf("r%d", i)] = r.Type()
		if r.Name() != "" && r.Name() != "_" {
			g.types[r.Name()] = r.Type()
			binds = append(binds, fmt.Sprintf("\tv_%s := %s; _ = v_%s", r.Name(), v, r.Name()))
		}
		if res.Len() == 1 {
			g.types["result"] = r.Type()
			binds = append(binds, fmt.Sprintf("\tv_result := %s; _ = v_result", v))
		}
		if i == res.Len()-1 && isErrorType(r.Type()) {
			if _, have := g.types["err"]; !have {
				g.types["err"] = r.Type()
				binds = append(binds, fmt.Sprintf("\tv_err := %s; _ = v_err", v))
			}
		}
	}
	if res.Len() == 0 {
		return "", false
	}
	cond := g.boolE(o.clause.Expr)
	if !g.ok {
		return "", false
	}
	var pbinds []string
	for _, p := range fn.Params {
		pbinds = append(pbinds, fmt.Sprintf("\tv_%s := %s; _ = v_%s", p.Name(), p.Name(), p.Name()))
	}
	var uses []string
	for _, l := range lhs {
		uses = append(uses, "_ = "+l)
	}
	src := fmt.Sprintf(`package %s

// Generated by govc from the solver's counterexample for
//   %s
// It calls the real function with the model's arguments and evaluates the violated contract clause
//   %s
// on what the function really returns; a false clause (or a panic) reproduces the violation.

import (
	"math/big"
	"testing"
)
%s
func TestGovcReplay(t *testing.T) {
	defer func() {
		if r := recover(); r != nil {
			t.Fatalf("REPRODUCED: %%v", r)
		}
	}()
%s
%s
	%s := %s(%s%s)
	%s
%s
%s
	if !(%s) {
		t.Fatalf("REPRODUCED: the postcondition is false for this input; results: %%v", []interface{}{%s})
	}
}
`, w.pkgOf(fn).Pkg.Name(), o.name, strings.Join(strings.Fields(o.clause.Src), " "), replayHelpers, strings.Join(decl, "\n"), strings.Join(snap, "\n"),
		strings.Join(lhs, ", "), fn.Name(), strings.Join(call, ", "), variadic, strings.Join(uses, "; "), strings.Join(pbinds, "\n"), strings.Join(binds, "\n"), cond, strings.Join(lhs, ", "))
	return src, true
}
