// govc: replaying solver counterexamples against the real code (go test -overlay; nothing is written to /repo).
package main

import (
	"context"
	"fmt"
	"go/types"
	"os"
	"os/exec"
	"path/filepath"
	"regexp"
	"strconv"
	"strings"
	"time"

	"golang.org/x/tools/go/ssa"
)

var valueRe = regexp.MustCompile(`\(\s*(\S.*?)\s+(\(- \d+\)|-?\d+|true|false)\s*\)`)

// getValues re-solves the obligation with the full context and asks for the values of terms.
func (e *Engine) getValues(o *Oblig, terms []string, pins ...string) (map[string]string, bool) {
	vc := e.sliceVC(o, true, terms)
	if len(pins) > 0 {
		// pin the values of an earlier model so that both rounds describe the same counterexample
		vc = strings.Replace(vc, "(check-sat)", strings.Join(pins, "\n")+"\n(check-sat)", 1)
	}
	for _, sp := range []solverSpec{solvers[0], solvers[2]} {
		r, out, _ := runSolver(sp, vc, 20)
		if d := os.Getenv("GOVC_DEBUG_REPLAY"); d != "" {
			os.MkdirAll(d, 0o755)
			os.WriteFile(filepath.Join(d, sanitizeFile(o.name)+"."+sp.name+".smt2"), []byte(vc), 0o644)
			os.WriteFile(filepath.Join(d, sanitizeFile(o.name)+"."+sp.name+".out"), []byte(out), 0o644)
		}
		if r != "sat" {
			continue
		}
		vals := map[string]string{}
		// the answer is a list of (term value) pairs in the order asked; read it positionally
		i := strings.Index(out, "((")
		if i < 0 {
			continue
		}
		pairs := parseSexprList(out[i:])
		// only the terms that were actually declared were asked for: recompute that list
		asked := askedTerms(vc)
		for k, pr := range pairs {
			if k < len(asked) {
				vals[asked[k]] = pr
			}
		}
		return vals, true
	}
	return nil, false
}

// askedTerms extracts the terms of the (get-value (...)) command of a VC, in order.
func askedTerms(vc string) []string {
	i := strings.LastIndex(vc, "(get-value (")
	if i < 0 {
		return nil
	}
	body := vc[i+len("(get-value ("):]
	var out []string
	depth := 0
	start := -1
	inBar := false
	for k := 0; k < len(body); k++ {
		c := body[k]
		if c == '|' {
			inBar = !inBar
			if depth == 0 && inBar {
				start = k
			} else if depth == 0 && !inBar {
				out = append(out, body[start:k+1])
				start = -1
			}
			continue
		}
		if inBar {
			continue
		}
		switch c {
		case '(':
			if depth == 0 {
				start = k
			}
			depth++
		case ')':
			if depth == 0 {
				return out
			}
			depth--
			if depth == 0 {
				out = append(out, body[start:k+1])
				start = -1
			}
		}
	}
	return out
}

// parseSexprList reads "((t v) (t v) ...)" and returns the value of each pair as a decimal/boolean string.
func parseSexprList(s string) []string {
	var out []string
	depth := 0
	inBar := false
	pairStart := -1
	for k := 0; k < len(s); k++ {
		c := s[k]
		if c == '|' {
			inBar = !inBar
			continue
		}
		if inBar {
			continue
		}
		switch c {
		case '(':
			depth++
			if depth == 2 {
				pairStart = k
			}
		case ')':
			if depth == 2 && pairStart >= 0 {
				pair := s[pairStart+1 : k]
				out = append(out, lastValue(pair))
				pairStart = -1
			}
			depth--
			if depth == 0 {
				return out
			}
		}
	}
	return out
}

// lastValue takes "term value" and returns value, normalising (- n) to -n.
func lastValue(pair string) string {
	pair = strings.TrimSpace(pair)
	if strings.HasSuffix(pair, ")") {
		// value is a parenthesised expression such as (- 5)
		depth := 0
		for k := len(pair) - 1; k >= 0; k-- {
			if pair[k] == ')' {
				depth++
			} else if pair[k] == '(' {
				depth--
				if depth == 0 {
					v := strings.TrimSpace(pair[k+1 : len(pair)-1])
					if strings.HasPrefix(v, "- ") {
						return "-" + strings.TrimSpace(v[2:])
					}
					return v
				}
			}
		}
	}
	k := strings.LastIndexAny(pair, " \n\t")
	return pair[k+1:]
}

// replayBuffer builds a Go test calling a free function of byte slices, strings, integers and booleans with the
// model's arguments. ok=false when the function has another shape or the model is too large to materialise.
func (w *World) replayBuffer(u *UnitResult, o *Oblig) (string, bool) {
	fn := u.Fn
	if fn.Signature.Recv() != nil || fn.Parent() != nil || o.In != o.Func && false {
		return "", false
	}
	e := u.engine
	type argInfo struct {
		name string
		t    types.Type
	}
	var args []argInfo
	var terms []string
	for _, p := range fn.Params {
		switch t := under(p.Type()).(type) {
		case *types.Slice:
			if b, ok := under(t.Elem()).(*types.Basic); !ok || b.Kind() != types.Uint8 {
				return "", false
			}
		case *types.Basic:
			if t.Info()&(types.IsInteger|types.IsBoolean|types.IsString) == 0 {
				return "", false
			}
		default:
			return "", false
		}
		args = append(args, argInfo{p.Name(), p.Type()})
	}
	mv := map[string]string{}
	for _, m := range e.modelVars {
		mv[m.Name] = m.Term
		terms = append(terms, m.Term)
	}
	vals, ok := e.getValues(o, terms)
	if !ok {
		return "", false
	}
	num := func(name string) (int64, bool) {
		v, ok := vals[mv[name]]
		if !ok {
			return 0, false
		}
		n, err := strconv.ParseInt(v, 10, 64)
		if err != nil {
			u, err2 := strconv.ParseUint(v, 10, 64)
			if err2 != nil {
				return 0, false
			}
			return int64(u), true
		}
		return n, true
	}
	// second round: bytes of slices / strings
	var byteTerms []string
	lens := map[string]int64{}
	for _, a := range args {
		if _, isSl := under(a.t).(*types.Slice); isSl {
			l, ok := num(a.name + ".len")
			if !ok || l < 0 || l > 65536 {
				return "", false
			}
			lens[a.name] = l
			arr := e.initials["E.uint8"]
			if arr == "" {
				continue
			}
			for i := int64(0); i < l; i++ {
				byteTerms = append(byteTerms, fmt.Sprintf("(select (select %s %s) (+ %s %d))", arr, mv[a.name+".base"], mv[a.name+".off"], i))
			}
		} else if isStr(a.t) {
			byteTerms = append(byteTerms, fmt.Sprintf("(slen %s)", mv[a.name]))
		}
	}
	bvals := map[string]string{}
	if len(byteTerms) > 0 {
		var pins []string
		for _, t := range terms {
			if v, ok := vals[t]; ok && v != "" {
				sv := v
				if strings.HasPrefix(sv, "-") {
					sv = "(- " + sv[1:] + ")"
				}
				if e.decls[t] == "Int" || e.decls[t] == "Bool" {
					pins = append(pins, fmt.Sprintf("(assert (= %s %s))", t, sv))
				}
			}
		}
		bv, ok := e.getValues(o, append(append([]string{}, terms...), byteTerms...), pins...)
		if ok {
			bvals = bv
		}
	}
	var decl, call []string
	for _, a := range args {
		switch t := under(a.t).(type) {
		case *types.Slice:
			_ = t
			l := lens[a.name]
			var bs []string
			arr := e.initials["E.uint8"]
			for i := int64(0); i < l; i++ {
				v := bvals[fmt.Sprintf("(select (select %s %s) (+ %s %d))", arr, mv[a.name+".base"], mv[a.name+".off"], i)]
				n, err := strconv.Atoi(v)
				if err != nil || n < 0 || n > 255 {
					n = 0
				}
				bs = append(bs, strconv.Itoa(n))
			}
			c, _ := num(a.name + ".cap")
			if c < l || c > 1<<20 {
				c = l
			}
			decl = append(decl, fmt.Sprintf("\t%s := make([]byte, %d, %d)\n\tcopy(%s, []byte{%s})", a.name, l, c, a.name, strings.Join(bs, ", ")))
		case *types.Basic:
			switch {
			case t.Info()&types.IsBoolean != 0:
				decl = append(decl, fmt.Sprintf("\t%s := %s", a.name, vals[mv[a.name]]))
			case t.Info()&types.IsString != 0:
				ln, _ := strconv.Atoi(bvals[fmt.Sprintf("(slen %s)", mv[a.name])])
				if ln > 65536 {
					return "", false
				}
				decl = append(decl, fmt.Sprintf("\t%s := string(make([]byte, %d))", a.name, ln))
			default:
				v, ok := vals[mv[a.name]]
				if !ok {
					v = "0"
				}
				decl = append(decl, fmt.Sprintf("\tvar %s %s = %s", a.name, types.TypeString(a.t, func(p *types.Package) string { return "" }), v))
			}
		}
		call = append(call, a.name)
	}
	variadic := ""
	if fn.Signature.Variadic() {
		variadic = "..."
	}
	src := fmt.Sprintf(`package %s

// Generated by govc from the solver's counterexample for
//   %s
// It calls the real function with the model's arguments; a panic reproduces the violation.

import "testing"

func TestGovcReplay(t *testing.T) {
	defer func() {
		if r := recover(); r != nil {
			t.Fatalf("REPRODUCED: %%v", r)
		}
	}()
%s
	%s(%s%s)
}
`, w.pkgOf(fn).Pkg.Name(), o.name, strings.Join(decl, "\n"), fn.Name(), strings.Join(call, ", "), variadic)
	return src, true
}

// runOverlayTest compiles the replay into the package through -overlay and runs it.
func runOverlayTest(w *World, fn *ssa.Function, goFile string) (string, bool) {
	pkgDir := ""
	for _, p := range w.pkgs {
		if p.Types == w.pkgOf(fn).Pkg && len(p.GoFiles) > 0 {
			pkgDir = filepath.Dir(p.GoFiles[0])
		}
	}
	if pkgDir == "" {
		return "package directory not found", false
	}
	tmp, err := os.MkdirTemp("", "govc-replay")
	if err != nil {
		return err.Error(), false
	}
	defer os.RemoveAll(tmp)
	ov := filepath.Join(tmp, "ov.json")
	os.WriteFile(ov, []byte(fmt.Sprintf(`{"Replace":{%q:%q}}`, filepath.Join(pkgDir, "zz_govc_replay_test.go"), goFile)), 0o644)
	ctx, cancel := context.WithTimeout(context.Background(), 120*time.Second)
	defer cancel()
	cmd := exec.CommandContext(ctx, "go", "test", "-overlay", ov, "-vet=off", "-count=1", "-timeout", "60s", "-run", "^TestGovcReplay$", ".")
	cmd.Dir = pkgDir
	env := []string{}
	for _, kv := range os.Environ() {
		if strings.HasPrefix(kv, "GOFLAGS=") {
			continue
		}
		env = append(env, kv)
	}
	cmd.Env = append(env, "GOFLAGS=", "GOPROXY=off", "GOSUMDB=off", "GOTOOLCHAIN=local")
	out, _ := cmd.CombinedOutput()
	s := string(out)
	failed := strings.Contains(s, "REPRODUCED") || strings.Contains(s, "panic:") || strings.Contains(s, "test timed out")
	if len(s) > 4000 {
		s = s[:4000]
	}
	return s, failed
}
