//go:build verif

package sem

/*@ func okAddWrapU8
    ensures result == (x + y) % 256
@*/
/*@ func badAddNoWrap
    ensures result == x + y
@*/
/*@ func okSubWrapU64
    ensures x >= y ==> result == x - y
    ensures x < y ==> result == x - y + 18446744073709551616
@*/
/*@ func badSubNoWrap
    ensures result == x - y
@*/
/*@ func okConvTrunc
    ensures result == x % 4294967296
@*/
/*@ func badConvTrunc
    ensures result == x
@*/
/*@ func okConvSign
    ensures x < 9223372036854775808 ==> result == x
    ensures x >= 9223372036854775808 ==> result == x - 18446744073709551616
@*/
/*@ func badConvSign
    ensures result >= 0
@*/
/*@ func okMulConst
    ensures result == (2 * x) % 4294967296
@*/
/*@ func badMulConst
    ensures result == 2 * x
@*/
/*@ func okShift
    ensures result == x / 8
@*/
/*@ func okAppendElems
    ensures len(result) == len(s) + 1 && result[len(s)] == x
    ensures forall(i, 0, len(s), result[i] == old(s[i]))
@*/
/*@ func badAppendAlias
    ensures len(s) > 0 ==> result == old(s[0])
@*/
/*@ func okAppendFreshNoAlias
    ensures len(s) > 0 ==> result == old(s[0])
@*/
/*@ func okCopy
    ensures result == ite(len(dst) <= len(src), len(dst), len(src))
    ensures base(dst) != base(src) ==> forall(i, 0, result, dst[i] == old(src[i]))
@*/
/*@ func badCopyCount
    ensures result == len(src)
@*/
/*@ func okLE32
    ensures len(b) >= 4 ==> result == le32at(b, 0)
    ensures len(b) >= 4 ==> result == b[0] + 256 * b[1] + 65536 * b[2] + 16777216 * b[3]
@*/
/*@ func okRoundTrip64
    ensures result == x
@*/
/*@ func badRoundTrip64
    ensures result == x
@*/
/*@ func okFieldFrame
    requires o != nil
    ensures result == 0
@*/
/*@ func okNestedMethod
    requires o != nil
    ensures result == 0
@*/
/*@ func badNestedMethod
    requires o != nil
    ensures result == 0
@*/
/*@ func okNilCheck
    requires o != nil
@*/
/*@ func badNilDeref
    requires o != nil
@*/
/*@ func callee
    requires o != nil
    touches o
    ensures o.a == 1
@*/
/*@ func okTouches
    requires x != nil && y != nil
    ensures result == 0
@*/
/*@ func badTouchesAlias
    requires x != nil && y != nil
    ensures result == 0
@*/
/*@ func leaky
    requires o != nil && q != nil
    touches o
@*/
/*@ func okPrivateAlloc
    requires o != nil
    ensures result == 5
@*/
/*@ func badEscapedAlloc
    requires o != nil
    ensures result == 5
@*/
/*@ func unknownCall
    noinline
    requires o != nil
@*/
/*@ func okSumLoop
    loop 1 invariant 0 <= i && i <= len(s)
@*/
/*@ func badLoopIndex
    loop 1 invariant 0 <= i && i <= len(s) + 1
@*/
/*@ func okLoopInvariant
    requires n <= 1000000
    ensures n >= 0 ==> result == 2 * n
    loop 1 invariant 0 <= i && x == 2 * i && (n >= 0 ==> i <= n)
@*/
/*@ func badLoopInvariant
    requires n <= 1000000
    ensures n >= 0 ==> result == 2 * n
    loop 1 invariant 0 <= i && x == 2 * i + 1 && (n >= 0 ==> i <= n)
@*/
/*@ func okLoopHeapHavoc
    requires o != nil
    ensures result == 3
@*/
/*@ func badLoopHeapHavoc
    requires o != nil
    ensures result == 3
@*/
/*@ func badLoopFreshStore
    ensures result == 0
@*/
/*@ func okTerm
    loop 1 invariant 0 <= c && c + i == n
    loop 1 decreases i
@*/
/*@ func badTerm
    loop 1 invariant 0 <= c && c <= 1001
    loop 1 decreases i
@*/
/*@ func okMapLookup
    ensures in(m, k) ==> result == m[k]
    ensures !in(m, k) ==> result == -1
@*/
/*@ func okMapUpdate
    requires k < 65535
    ensures result == 6
@*/
/*@ func badMapLen
    ensures result == 2
@*/
/*@ func okErrNonNil
    ensures c > 0 ==> result != nil
    ensures c <= 0 ==> result == nil
@*/
/*@ func okTypeAssert
    ensures e == nil ==> result == 0
@*/
/*@ func okErrorsIs
    requires r != nil
    ensures result != nil ==> !isEOF(result)
@*/
/*@ func badErrSwallow
    requires r != nil
    ensures len(b) > 0 ==> (ghost(rd_pos, r) == old(ghost(rd_pos, r)) + len(b) || result != nil)
@*/
/*@ func okClosure
    ensures -1000 <= n && n <= 1000 ==> result == n + 1
@*/
/*@ func okDefer
    requires o != nil
    ensures o.a == 9 && r == old(o.b)
@*/
/*@ func okSortPerm$1
    requires 0 <= i && i < len(xs) && 0 <= j && j < len(xs)
@*/
/*@ func badSortLess$1
    requires 0 <= i && i + 1 < len(xs) && 0 <= j && j < len(xs)
@*/
/*@ func okFreshDistinct
    requires o != nil
    ensures result
@*/
/*@ func okFreshResult
    ensures fresh(result)
@*/
/*@ func badFreshResult
    ensures fresh(result)
@*/
/*@ func okStringOfBytes
    ensures result == len(b)
@*/
