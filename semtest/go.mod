module semtest

go 1.22
