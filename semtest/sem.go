// Package sem is the semantics conformance suite of govc: micro-functions whose obligations have a known truth.
// Functions named ok* must verify completely; functions named bad* must have at least one obligation refuted
// (a counterexample found), and no obligation of a bad* function may be "proved" for the wrong reason: each bad*
// function contains exactly one defect.
package sem

import (
	"encoding/binary"
	"errors"
	"io"
	"sort"
)

// ---- integer arithmetic with wrap-around ----

func okAddWrapU8(x, y uint8) uint8 { return x + y } // contract: result == (x+y) mod 256
func badAddNoWrap(x, y uint8) uint8 { return x + y } // contract claims result == x+y
func okSubWrapU64(x, y uint64) uint64 { return x - y }
func badSubNoWrap(x, y uint64) uint64 { return x - y }
func okConvTrunc(x uint64) uint32 { return uint32(x) }
func badConvTrunc(x uint64) uint32 { return uint32(x) }
func okConvSign(x uint64) int { return int(x) } // negative for x >= 2^63
func badConvSign(x uint64) int { return int(x) }
func okMulConst(x uint32) uint32 { return x * 2 }
func badMulConst(x uint32) uint32 { return x * 2 }
func okDiv(x, y int) int {
	if y == 0 {
		return 0
	}
	return x / y
}
func badDiv(x, y int) int { return x / y }
func okShift(x uint64) uint64 { return x >> 3 }
func okIntMinDiv(x int64) int64 {
	if x == -9223372036854775808 {
		return 0
	}
	return x / -1
}

// ---- slices ----

func okIndex(s []byte, i int) byte {
	if i >= 0 && i < len(s) {
		return s[i]
	}
	return 0
}
func badIndex(s []byte, i int) byte {
	if i >= 0 && i <= len(s) {
		return s[i]
	}
	return 0
}
func okSliceCap(s []byte, n int) []byte {
	if n >= 0 && n <= cap(s) {
		return s[:n] // reslicing up to cap is legal
	}
	return nil
}
func badSliceCap(s []byte, n int) []byte {
	if n >= 0 && n <= cap(s)+1 {
		return s[:n]
	}
	return nil
}
func okSliceLow(s []byte, n int) []byte {
	if n >= 0 && n <= len(s) {
		return s[n:]
	}
	return nil
}
func badSliceLow(s []byte, n int) []byte {
	if n >= 0 && n <= cap(s) {
		return s[n:] // s[n:] needs n <= len(s)
	}
	return nil
}
func okMake(n int) []byte {
	if n < 0 || n > 1000 {
		return nil
	}
	return make([]byte, n)
}
func badMakeNeg(n int) []byte {
	if n > 1000 {
		return nil
	}
	return make([]byte, n)
}
func badMakeHuge(n uint32) []byte { return make([]byte, n) } // alloc ceiling
func okAppendElems(s []byte, x byte) []byte {
	t := append(s, x)
	return t // contract: len+1, last == x, prefix kept
}
func badAppendAlias(s []byte, x byte) byte {
	if len(s) == 0 {
		return 0
	}
	_ = append(s[:0], x) // may overwrite s[0] in place
	return s[0]          // contract claims result == old(s[0])
}
func okAppendFreshNoAlias(s []byte, x byte) byte {
	if len(s) == 0 {
		return 0
	}
	t := append([]byte{}, s...)
	t[0] = x
	return s[0] // unchanged: t is a fresh array
}
func okCopy(dst, src []byte) int { return copy(dst, src) } // contract: min(len), dst prefix == src prefix
func badCopyCount(dst, src []byte) int { return copy(dst, src) }

// ---- little endian ----

func okLE32(b []byte) uint32 {
	if len(b) < 4 {
		return 0
	}
	return binary.LittleEndian.Uint32(b)
}
func badLE32Short(b []byte) uint32 {
	if len(b) < 3 {
		return 0
	}
	return binary.LittleEndian.Uint32(b)
}
func okRoundTrip64(b []byte, x uint64) uint64 {
	if len(b) < 8 {
		return x
	}
	binary.LittleEndian.PutUint64(b, x)
	return binary.LittleEndian.Uint64(b)
}
func badRoundTrip64(b []byte, x uint64) uint64 {
	if len(b) < 9 {
		return x
	}
	binary.LittleEndian.PutUint64(b, x)
	return binary.LittleEndian.Uint64(b[1:]) // shifted: not x
}

// ---- structs, pointers, frames ----

type inner struct{ n int }
type outer struct {
	a, b int
	in   inner
	p    *inner
	buf  []byte
}

func (o *outer) setA(v int) { o.a = v }
func (i *inner) bump()     { i.n++ }

func okFieldFrame(o *outer) int {
	old := o.b
	o.setA(7)
	return o.b - old // 0: setA touches only a (inlined)
}
func okNestedMethod(o *outer) int {
	before := o.a
	o.in.bump() // &o.in passed as receiver
	return o.a - before
}
func badNestedMethod(o *outer) int {
	before := o.in.n
	o.in.bump()
	return o.in.n - before // 1, contract claims 0 — but also wraps at MaxInt: claims == 0
}
func okNilCheck(o *outer) int {
	if o.p == nil {
		return 0
	}
	return o.p.n
}
func badNilDeref(o *outer) int { return o.p.n }

func callee(o *outer) { o.a = 1 } // has contract: touches o; ensures o.a == 1
func okTouches(x, y *outer) int {
	if x == y {
		return 0
	}
	old := y.a
	callee(x)
	return y.a - old // 0 thanks to touches
}
func badTouchesAlias(x, y *outer) int {
	old := y.a
	callee(x)
	return y.a - old // x may be y
}
func leaky(o *outer, q *outer) { o.a = 1; q.a = 2 } // contract says touches o only: frame must fail
func okPrivateAlloc(o *outer) int {
	v := 5
	p := &v
	callee(o) // cannot reach v
	return *p
}
func badEscapedAlloc(o *outer) int {
	v := inner{n: 5}
	o.p = &v // escapes
	unknownCall(o)
	return v.n // contract claims 5
}

//go:noinline
func unknownCall(o *outer) {
	if o.p != nil {
		o.p.n = 9
	}
}

// ---- loops ----

func okSumLoop(s []byte) int {
	n := 0
	for i := 0; i < len(s); i++ {
		n += int(s[i])
	}
	return n
}
func okRangeLoop(s []int) int {
	m := 0
	for i, v := range s {
		if v > m {
			m = s[i]
		}
	}
	return m
}
func badLoopIndex(s []byte) int {
	n := 0
	for i := 0; i <= len(s); i++ {
		n += int(s[i])
	}
	return n
}
func okLoopInvariant(n int) int {
	x := 0
	for i := 0; i < n; i++ {
		x += 2
	}
	return x // contract: n >= 0 ==> result == 2n (needs invariant)
}
func badLoopInvariant(n int) int {
	x := 0
	for i := 0; i < n; i++ {
		x += 2
	}
	return x // invariant given is not inductive
}
func okLoopHeapHavoc(o *outer, n int) int {
	o.b = 3
	for i := 0; i < n; i++ {
		o.a = i
	}
	return o.b // loop writes a only
}
func badLoopHeapHavoc(o *outer, n int) int {
	o.a = 3
	for i := 0; i < n; i++ {
		o.a = i
	}
	return o.a // contract claims 3
}
func badLoopFreshStore(n int) int {
	v := &inner{}
	for i := 0; i < n; i++ {
		v.n = i
	}
	return v.n // contract claims 0: the loop writes the fresh object
}
func okTerm(n uint8) int {
	c := 0
	for i := n; i > 0; i-- {
		c++
	}
	return c
}
func badTerm(n uint8) int {
	c := 0
	for i := n; i >= 0; i-- { // never terminates: uint8 >= 0 always
		c++
		if c > 1000 {
			break
		}
	}
	return c
}

// ---- maps ----

func okMapLookup(m map[uint16]int, k uint16) int {
	v, ok := m[k]
	if !ok {
		return -1
	}
	return v
}
func okMapUpdate(k uint16) int {
	m := make(map[uint16]int)
	m[k] = 4
	m[k+1] = 5
	return m[k] + len(m) // 4 + 2
}
func badNilMapWrite(m map[uint16]int) { m[1] = 2 }
func badMapLen(k uint16) int {
	m := make(map[uint16]int)
	m[k] = 4
	m[k] = 5
	return len(m) // 1, contract claims 2
}

// ---- strings ----

func okStrIndex(s string, i int) byte {
	if i < 0 || i >= len(s) {
		return 0
	}
	return s[i]
}
func badStrSlice(s string, a, b int) string {
	if a < 0 || b > len(s) {
		return ""
	}
	return s[a:b] // a may exceed b
}
func okStringOfBytes(b []byte) int { return len(string(b)) }

// ---- interfaces and errors ----

type myErr struct{ code int }

func (e *myErr) Error() string { return "x" }

func okErrNonNil(c int) error {
	if c > 0 {
		return &myErr{c}
	}
	return nil
}
func okTypeAssert(e error) int {
	if m, ok := e.(*myErr); ok && m != nil {
		return m.code
	}
	return 0
}
func badTypeAssertNilPayload(e error) int {
	if m, ok := e.(*myErr); ok {
		return m.code // an interface may hold a nil *myErr
	}
	return 0
}
func badTypeAssert(e error) int { return e.(*myErr).code }
func okErrorsIs(r io.Reader, b []byte) error {
	_, err := io.ReadFull(r, b)
	if errors.Is(err, io.EOF) {
		return nil
	}
	return err
}
func badErrSwallow(r io.Reader, b []byte) error {
	_, err := io.ReadFull(r, b)
	if err != nil {
		return nil // contract: a non-EOF failure must be reported
	}
	return nil
}

// ---- closures, defer ----

func okClosure(n int) int {
	add := func(x int) int { return x + n }
	if n > 1000 || n < -1000 {
		return 0
	}
	return add(1)
}
func okDefer(o *outer) (r int) {
	defer o.setA(9)
	return o.b
}
func okSortPerm(xs []int) {
	sort.Slice(xs, func(i, j int) bool { return xs[i] < xs[j] })
}
func badSortLess(xs []int) {
	sort.Slice(xs, func(i, j int) bool { return xs[i+1] < xs[j] })
}

// ---- freshness ----

func okFreshDistinct(o *outer) bool {
	p := &inner{}
	return p != o.p
}
func okFreshResult() *outer { return &outer{} }
func badFreshResult(o *outer) *outer { return o }
